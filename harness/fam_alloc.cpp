// fam_alloc — C20 (second half): combinators allocate a constant number of blocks whatever the number of inputs;
// Wait/WaitFor/WaitUntil on plain futures, Future::Get, Strand submission of an existing job and co_await of futures
// allocate nothing.  Plain (unsanitized) builds, global operator new is counted.
#include "vf_exec.hpp"

#include <yaclib/async/contract.hpp>
#include <yaclib/async/join.hpp>
#include <yaclib/async/make.hpp>
#include <yaclib/async/run.hpp>
#include <yaclib/exe/manual.hpp>
#include <yaclib/lazy/schedule.hpp>
#include <yaclib/lazy/make.hpp>
#include <yaclib/async/wait.hpp>
#include <yaclib/async/wait_for.hpp>
#include <yaclib/async/wait_until.hpp>
#include <yaclib/async/when_all.hpp>
#include <yaclib/async/when_any.hpp>
#if YACLIB_CORO != 0
#  include <yaclib/coro/await.hpp>
#  include <yaclib/coro/await_on.hpp>
#  include <yaclib/coro/await_sticky.hpp>
#  include <yaclib/coro/future.hpp>
#  include <yaclib/coro/on.hpp>
#endif

#include <chrono>
#include <thread>
#include <tuple>
#include <vector>

using namespace vf;
using yaclib::FailPolicy;

namespace {

inline long News() {
  return g_news.load(kRlx);
}

using F = yaclib::Future<int>;
using P = yaclib::Promise<int>;

// a copyable, heap-owning payload whose move constructor is not declared noexcept (like many user types): the library
// must still move it, every copy is an extra heap block per input
struct Blob {
  static inline long copies = 0;
  std::vector<int> data;
  Blob() : data(8, 1) {
  }
  explicit Blob(int x) : data(8, x) {
  }
  Blob(const Blob& o) : data(o.data) {
    ++copies;
  }
  Blob(Blob&& o) : data(std::move(o.data)) {  // NOLINT: deliberately not noexcept
  }
  Blob& operator=(const Blob& o) {
    data = o.data;
    ++copies;
    return *this;
  }
  Blob& operator=(Blob&& o) {  // NOLINT
    data = std::move(o.data);
    return *this;
  }
};

template <typename V>
struct InputsT {
  std::vector<yaclib::Future<V>> fs;
  std::vector<yaclib::Promise<V>> ps;
  std::vector<V> vals;  // created before the measurement starts, moved into the promises
  explicit InputsT(int n) {
    fs.reserve(static_cast<std::size_t>(n));
    ps.reserve(static_cast<std::size_t>(n));
    vals.reserve(static_cast<std::size_t>(n));
    for (int i = 0; i < n; ++i) {
      auto [f, p] = yaclib::MakeContract<V>();
      fs.push_back(std::move(f));
      ps.push_back(std::move(p));
      vals.emplace_back(i);
    }
  }
  void SetAll(int fail_at) {
    for (std::size_t i = 0; i < ps.size(); ++i) {
      if (static_cast<int>(i) == fail_at) {
        std::move(ps[i]).Set(yaclib::StopTag{});
      } else {
        std::move(ps[i]).Set(std::move(vals[i]));
      }
    }
  }
};
using Inputs = InputsT<int>;

enum Comb { cAllFirstFail, cAllNone, cAnyLastFail, cAnyFirstFail, cAnyNone, cJoinNone, cJoinFirstFail, kCombs };
const char* const kCombName[] = {"WhenAll<FirstFail>", "WhenAll<None>",  "WhenAny<LastFail>", "WhenAny<FirstFail>",
                                 "WhenAny<None>",      "Join<None>",     "Join<FirstFail>"};

// returns allocations made by the combinator call + completion of the inputs + consumption of the output
template <typename V>
long CountDynamicT(int comb, int n, int fail_at, bool ready_before) {
  InputsT<V> in{n};
  if (ready_before) {
    in.SetAll(fail_at);
  }
  long a0 = News();
  auto run = [&](auto out) {
    if (!ready_before) {
      in.SetAll(fail_at);
    }
    auto r = std::move(out).Get();
    (void)r;
  };
  switch (comb) {
    case cAllFirstFail:
      run(yaclib::WhenAll<FailPolicy::FirstFail>(in.fs.begin(), in.fs.size()));
      break;
    case cAllNone:
      run(yaclib::WhenAll<FailPolicy::None>(in.fs.begin(), in.fs.size()));
      break;
    case cAnyLastFail:
      run(yaclib::WhenAny<FailPolicy::LastFail>(in.fs.begin(), in.fs.size()));
      break;
    case cAnyFirstFail:
      run(yaclib::WhenAny<FailPolicy::FirstFail>(in.fs.begin(), in.fs.size()));
      break;
    case cAnyNone:
      run(yaclib::WhenAny<FailPolicy::None>(in.fs.begin(), in.fs.size()));
      break;
    case cJoinNone:
      run(yaclib::Join<FailPolicy::None>(in.fs.begin(), in.fs.size()));
      break;
    default:
      run(yaclib::Join<FailPolicy::FirstFail>(in.fs.begin(), in.fs.size()));
      break;
  }
  return News() - a0;
}

inline long CountDynamic(int comb, int n, int fail_at, bool ready_before) {
  return CountDynamicT<int>(comb, n, fail_at, ready_before);
}

template <int N>
long CountStatic(int comb, int fail_at, bool ready_before) {
  Inputs in{N};
  if (ready_before) {
    in.SetAll(fail_at);
  }
  long a0 = News();
  auto run = [&](auto out) {
    if (!ready_before) {
      in.SetAll(fail_at);
    }
    auto r = std::move(out).Get();
    (void)r;
  };
  auto call = [&](auto&&... f) {
    switch (comb) {
      case cAllFirstFail:
        run(yaclib::WhenAll<FailPolicy::FirstFail>(std::move(f)...));
        break;
      case cAllNone:
        run(yaclib::WhenAll<FailPolicy::None>(std::move(f)...));
        break;
      case cAnyLastFail:
        run(yaclib::WhenAny<FailPolicy::LastFail>(std::move(f)...));
        break;
      case cAnyFirstFail:
        run(yaclib::WhenAny<FailPolicy::FirstFail>(std::move(f)...));
        break;
      case cAnyNone:
        run(yaclib::WhenAny<FailPolicy::None>(std::move(f)...));
        break;
      case cJoinNone:
        run(yaclib::Join<FailPolicy::None>(std::move(f)...));
        break;
      default:
        run(yaclib::Join<FailPolicy::FirstFail>(std::move(f)...));
        break;
    }
  };
  if constexpr (N == 2) {
    call(in.fs[0], in.fs[1]);
  } else if constexpr (N == 3) {
    call(in.fs[0], in.fs[1], in.fs[2]);
  } else if constexpr (N == 4) {
    call(in.fs[0], in.fs[1], in.fs[2], in.fs[3]);
  } else {
    call(in.fs[0], in.fs[1], in.fs[2], in.fs[3], in.fs[4], in.fs[5]);
  }
  return News() - a0;
}

void CombinatorCase(Ctx& ctx, bool is_static) {
  int comb = static_cast<int>(ctx.rng.Below(kCombs));
  bool ready_before = ctx.rng.Coin();
  bool with_fail = ctx.rng.Below(3) == 0;
  ctx.SetNontrivial(true);
  if (is_static) {
    int fa2 = with_fail ? 1 : -1;
    long c2 = CountStatic<2>(comb, fa2, ready_before);
    long c3 = CountStatic<3>(comb, fa2, ready_before);
    long c4 = CountStatic<4>(comb, fa2, ready_before);
    long c6 = CountStatic<6>(comb, fa2, ready_before);
    ctx.Note("%s static form, inputs %s, %s: allocations n=2:%ld n=3:%ld n=4:%ld n=6:%ld", kCombName[comb],
             ready_before ? "ready before" : "completed after", with_fail ? "one failing" : "all succeed", c2, c3, c4, c6);
    ctx.Observe(static_cast<u64>(comb * 1000 + c2 * 10 + (ready_before ? 1 : 0)));
    ctx.Check(c2 == c3 && c3 == c4 && c4 == c6, "combinator-constant-allocations", "C20",
              "%s (static): allocations depend on the number of inputs: n=2:%ld n=3:%ld n=4:%ld n=6:%ld", kCombName[comb],
              c2, c3, c4, c6);
    ctx.Check(c6 <= 8, "combinator-allocation-bound", "C20", "%s (static): %ld allocations", kCombName[comb], c6);
    return;
  }
  static const int ns[] = {2, 3, 4, 8, 16, 33, 64};
  long c[7];
  bool blob = ctx.rng.Below(3) == 0;
  long copies0 = Blob::copies;
  for (int i = 0; i < 7; ++i) {
    int fa = with_fail ? static_cast<int>(ctx.rng.Below(static_cast<u32>(ns[i]))) : -1;
    c[i] = blob ? CountDynamicT<Blob>(comb, ns[i], fa, ready_before) : CountDynamic(comb, ns[i], fa, ready_before);
  }
  long c1 = blob ? CountDynamicT<Blob>(comb, 1, -1, ready_before) : CountDynamic(comb, 1, -1, ready_before);
  if (blob) {
    ctx.Note("(payload: copyable heap-owning type with a potentially throwing move) ");
    ctx.Check(Blob::copies == copies0, "payload-copied", "C20",
              "%s over plain futures copied the payload %ld times (every copy of a heap-owning value is a heap block per input)",
              kCombName[comb], Blob::copies - copies0);
  }
  ctx.Note("%s iterator form, inputs %s, %s: allocations n=1:%ld n=2:%ld n=3:%ld n=4:%ld n=8:%ld n=16:%ld n=33:%ld n=64:%ld",
           kCombName[comb], ready_before ? "ready before" : "completed after", with_fail ? "one failing" : "all succeed",
           c1, c[0], c[1], c[2], c[3], c[4], c[5], c[6]);
  ctx.Observe(static_cast<u64>(comb * 1000 + c[0] * 10 + (ready_before ? 1 : 0)));
  bool same = true;
  for (int i = 1; i < 7; ++i) {
    same = same && c[i] == c[0];
  }
  ctx.Check(same, "combinator-constant-allocations", "C20",
            "%s (iterator): allocations depend on the number of inputs: n=2:%ld n=3:%ld n=4:%ld n=8:%ld n=16:%ld n=33:%ld "
            "n=64:%ld",
            kCombName[comb], c[0], c[1], c[2], c[3], c[4], c[5], c[6]);
  ctx.Check(c[6] <= 8 && c1 <= 8, "combinator-allocation-bound", "C20", "%s (iterator): %ld allocations for 64 inputs",
            kCombName[comb], c[6]);
}

// ---- zero-allocation operations --------------------------------------------------------------------------------------

struct NopJob final : yaclib::Job {
  int calls = 0;
  void Call() noexcept final {
    ++calls;
  }
  void Drop() noexcept final {
  }
};

void WaitCase(Ctx& ctx) {
  int n = static_cast<int>(ctx.rng.In(1, 64));
  int kind = static_cast<int>(ctx.rng.Below(3));     // Wait, WaitFor, WaitUntil
  int form = static_cast<int>(ctx.rng.Below(2));     // iterator, variadic (n<=4)
  int timing = static_cast<int>(ctx.rng.Below(3));   // 0 ready before, 1 completed by another thread during the wait, 2 timeout
  if (form == 1) {
    n = static_cast<int>(ctx.rng.In(1, 4));
  }
  if (kind == 0 && timing == 2) {
    timing = 1;
  }
  Inputs in{n};
  if (timing == 0) {
    in.SetAll(-1);
  }
  std::atomic<int> go{0};
  std::thread producer;
  if (timing == 1) {
    producer = std::thread([&] {
      while (go.load(std::memory_order_acquire) == 0) {
        std::this_thread::yield();
      }
      in.SetAll(-1);
    });
  }
  auto dur = timing == 2 ? std::chrono::microseconds{200} : std::chrono::seconds{20};
  long a0 = News();
  go.store(1, std::memory_order_release);
  bool r = true;
  auto& f = in.fs;
  if (form == 0) {
    if (kind == 0) {
      yaclib::Wait(f.begin(), f.size());
    } else if (kind == 1) {
      r = yaclib::WaitFor(dur, f.begin(), f.size());
    } else {
      r = yaclib::WaitUntil(std::chrono::steady_clock::now() + dur, f.begin(), f.end());
    }
  } else {
    auto doit = [&](auto&... x) {
      if (kind == 0) {
        yaclib::Wait(x...);
      } else if (kind == 1) {
        r = yaclib::WaitFor(dur, x...);
      } else {
        r = yaclib::WaitUntil(std::chrono::steady_clock::now() + dur, x...);
      }
    };
    switch (n) {
      case 1:
        doit(f[0]);
        break;
      case 2:
        doit(f[0], f[1]);
        break;
      case 3:
        doit(f[0], f[1], f[2]);
        break;
      default:
        doit(f[0], f[1], f[2], f[3]);
        break;
    }
  }
  long allocs = News() - a0;
  if (producer.joinable()) {
    producer.join();
  }
  if (timing == 2) {
    in.SetAll(-1);
  }
  long g0 = News();
  long sum = 0;
  for (auto& x : f) {
    sum += std::move(x).Get().Ok();
  }
  long get_allocs = News() - g0;
  static const char* const kKind[] = {"Wait", "WaitFor", "WaitUntil"};
  static const char* const kTiming[] = {"ready before", "completed by another thread during the wait", "times out"};
  ctx.Note("%s %s form, %d plain futures, %s: %ld allocations (returned %d); %d x Future::Get: %ld allocations", kKind[kind],
           form == 0 ? "iterator" : "variadic", n, kTiming[timing], allocs, (int)r, n, get_allocs);
  ctx.SetNontrivial(true);
  ctx.Observe(static_cast<u64>(kind * 1000 + form * 500 + timing * 100 + n));
  ctx.Class(kTiming[timing]);
  ctx.Check(allocs == 0, "wait-allocates", "C20", "%s (%s form, n=%d, %s) made %ld heap allocations", kKind[kind],
            form == 0 ? "iterator" : "variadic", n, kTiming[timing], allocs);
  ctx.Check(get_allocs == 0, "get-allocates", "C20", "Future::Get made %ld heap allocations for %d futures", get_allocs, n);
  (void)sum;
}

// A step that unwraps a returned Future / Task moves the inner result into its own state: no copy of the payload and no
// heap block when the inner future completes, whichever kind of step it is (first step of Run / Schedule included).
void UnwrapCase(Ctx& ctx) {
  int head = static_cast<int>(ctx.rng.Below(5));  // 0 Run(e,f) 1 Schedule(e,f).ToFuture() 2 ThenInline 3 Then(e) 4 Schedule(e,f) returning a Task
  bool pending = ctx.rng.Coin();
  int x = static_cast<int>(ctx.rng.In(1, 1000));
  static const char* const kHead[] = {"Run(e, f)", "Schedule(e, f).ToFuture()", "ThenInline(f)", "Then(e, f)", "Schedule(e, f -> Task).ToFuture()"};
  auto manual = yaclib::MakeManual();
  auto [inner_f0, inner_p0] = yaclib::MakeContract<Blob>();
  auto inner_f = std::move(inner_f0);
  auto inner_p = std::move(inner_p0);
  Blob value{x};
  if (!pending) {
    std::move(inner_p).Set(std::move(value));
  }
  long c0 = Blob::copies;
  yaclib::Future<Blob> out;
  auto give = [&]() -> yaclib::Future<Blob> {
    return std::move(inner_f);
  };
  switch (head) {
    case 0:
      out = yaclib::Run(*manual, give).On(nullptr);
      break;
    case 1:
      out = yaclib::Schedule(*manual, give).ToFuture();
      break;
    case 2:
      out = yaclib::MakeFuture().ThenInline(give);
      break;
    case 3:
      out = yaclib::MakeFuture().Then(*manual, give).On(nullptr);
      break;
    default:
      out = yaclib::Schedule(*manual, [&]() -> yaclib::Task<Blob> {
              return yaclib::Schedule(*manual, [&]() -> Blob {
                return Blob{x};
              });
            }).ToFuture();
      pending = false;
      break;
  }
  std::ignore = static_cast<yaclib::ManualExecutor&>(*manual).Drain();
  long w0 = News();
  if (pending) {
    std::move(inner_p).Set(std::move(value));
  }
  std::ignore = static_cast<yaclib::ManualExecutor&>(*manual).Drain();
  bool ready = out.Ready();
  int got = -1;
  if (ready) {
    auto r = std::move(out).Get();
    got = r ? std::as_const(r).Value().data[0] : -2;
  }
  long window = News() - w0;
  long copies = Blob::copies - c0;
  ctx.Note("%s whose functor returns a %s future of a heap-owning value: %ld payload copies, %ld allocations while the inner "
           "result arrives and is read", kHead[head], pending ? "pending" : "ready", copies, window);
  ctx.SetNontrivial(true);
  ctx.Observe(static_cast<u64>(head * 2 + (pending ? 1 : 0)));
  ctx.Class(pending ? "inner-pending" : "inner-ready");
  ctx.Check(ready && got == x, "unwrap-result", "C20", "%s did not deliver the inner value (ready=%d got=%d want=%d)", kHead[head],
            (int)ready, got, x);
  ctx.Check(copies == 0, "payload-copied", "C20", "%s copied the inner future's payload %ld times instead of moving it", kHead[head],
            copies);
  if (head != 4) {
    ctx.Check(window == 0, "unwrap-allocates", "C20", "%s made %ld heap allocations when the inner future completed and was read",
              kHead[head], window);
  }
}

void StrandCase(Ctx& ctx) {
  auto manual = yaclib::MakeManual();
  auto strand = yaclib::MakeStrand(manual);
  int n = static_cast<int>(ctx.rng.In(1, 40));
  std::vector<NopJob> jobs(static_cast<std::size_t>(n));
  long a0 = News();
  for (auto& j : jobs) {
    strand->Submit(j);
    if (ctx.rng.Below(4) == 0) {
      (void)static_cast<yaclib::ManualExecutor&>(*manual).Drain();
    }
  }
  while (static_cast<yaclib::ManualExecutor&>(*manual).Drain() != 0) {
  }
  long allocs = News() - a0;
  ctx.Note("Strand::Submit of %d existing jobs (drained in between): %ld allocations", n, allocs);
  ctx.SetNontrivial(true);
  ctx.Observe(static_cast<u64>(n));
  ctx.Check(allocs == 0, "strand-submit-allocates", "C20", "submitting %d existing jobs to a Strand made %ld allocations", n,
            allocs);
}

#if YACLIB_CORO != 0
void CoAwaitCase(Ctx& ctx) {
  int n = static_cast<int>(ctx.rng.In(1, 3));
  bool ready = ctx.rng.Coin();
  // 0 co_await f, 1 Await(f..), 2 Await(it,n), 3 On(e), 4 AwaitSticky(f..), 5 AwaitSticky(it,n), 6 AwaitSticky(it,end),
  // 7 AwaitOn(e,f..), 8 AwaitOn(e,it,n), 9 Await(it,end)
  int form = static_cast<int>(ctx.rng.Below(10));
  Inputs in{3};
  auto manual = yaclib::MakeManual();
  long inside = -1;
  auto co = [&]() -> yaclib::Future<int> {
    long a0 = News();
    int acc = 0;
    switch (form) {
      case 0:
        acc = co_await std::move(in.fs[0]);
        break;
      case 1:
        if (n == 1) {
          co_await yaclib::Await(in.fs[0]);
        } else if (n == 2) {
          co_await yaclib::Await(in.fs[0], in.fs[1]);
        } else {
          co_await yaclib::Await(in.fs[0], in.fs[1], in.fs[2]);
        }
        break;
      case 2:
        co_await yaclib::Await(in.fs.begin(), static_cast<std::size_t>(n));
        break;
      case 3:
        co_await yaclib::On(*manual);
        break;
      case 4:
        if (n == 1) {
          co_await yaclib::AwaitSticky(in.fs[0]);
        } else if (n == 2) {
          co_await yaclib::AwaitSticky(in.fs[0], in.fs[1]);
        } else {
          co_await yaclib::AwaitSticky(in.fs[0], in.fs[1], in.fs[2]);
        }
        break;
      case 5:
        co_await yaclib::AwaitSticky(in.fs.begin(), static_cast<std::size_t>(n));
        break;
      case 6:
        co_await yaclib::AwaitSticky(in.fs.begin(), in.fs.begin() + n);
        break;
      case 7:
        if (n == 1) {
          co_await yaclib::AwaitOn(*manual, in.fs[0]);
        } else if (n == 2) {
          co_await yaclib::AwaitOn(*manual, in.fs[0], in.fs[1]);
        } else {
          co_await yaclib::AwaitOn(*manual, in.fs[0], in.fs[1], in.fs[2]);
        }
        break;
      case 8:
        co_await yaclib::AwaitOn(*manual, in.fs.begin(), static_cast<std::size_t>(n));
        break;
      default:
        co_await yaclib::Await(in.fs.begin(), in.fs.begin() + n);
        break;
    }
    inside = News() - a0;
    co_return acc;
  };
  if (ready) {
    in.SetAll(-1);
  }
  auto f = co();
  if (!ready) {
    in.SetAll(-1);
  }
  while (static_cast<yaclib::ManualExecutor&>(*manual).Drain() != 0) {
  }
  (void)std::move(f).Get();
  static const char* const kForm[] = {"co_await future", "co_await Await(f...)", "co_await Await(it, n)", "co_await On(e)",
                                      "co_await AwaitSticky(f...)", "co_await AwaitSticky(it, n)", "co_await AwaitSticky(it, end)",
                                      "co_await AwaitOn(e, f...)", "co_await AwaitOn(e, it, n)", "co_await Await(it, end)"};
  ctx.Note("%s, n=%d, awaited %s: %ld allocations inside the coroutine around the co_await", kForm[form], n,
           ready ? "already ready" : "completed later", inside);
  ctx.SetNontrivial(true);
  ctx.Observe(static_cast<u64>(form * 10 + n + (ready ? 100 : 0)));
  ctx.Check(inside == 0, "co-await-allocates", "C20", "%s (n=%d, %s) made %ld heap allocations", kForm[form], n,
            ready ? "ready" : "pending", inside);
}

// round 8: a heap-owning, copyable value travelling through single-step forms must be moved, never copied:
// co_await std::move(future) hands it to the coroutine, MakeTask / MakeFuture store the caller's rvalue.
void HeapValueCase(Ctx& ctx) {
  int form = static_cast<int>(ctx.rng.Below(4));  // 0 co_await std::move(f), 1 MakeTask(std::move(v)), 2 MakeTask<V>(std::move(v)), 3 MakeFuture
  bool ready = ctx.rng.Coin();
  long c0 = Blob::copies;
  long allocs = -1;
  long limit = 0;
  bool intact = true;
  if (form == 0) {
    InputsT<Blob> in{1};
    long inside = -1;
    auto co = [&]() -> yaclib::Future<int> {
      long a0 = News();
      Blob b = co_await std::move(in.fs[0]);
      inside = News() - a0;
      co_return static_cast<int>(b.data.size()) * 100 + b.data[0];
    };
    if (ready) {
      in.SetAll(-1);
    }
    auto f = co();
    if (!ready) {
      in.SetAll(-1);
    }
    int got = std::move(f).Get().Ok();
    intact = got == 800;
    allocs = inside;
    limit = 0;
  } else {
    Blob v{7};
    long a0 = News();
    if (form == 1) {
      auto t = yaclib::MakeTask(std::move(v));
      allocs = News() - a0;
      auto r = std::move(t).Get();
      intact = std::as_const(r).Value().data.size() == 8 && std::as_const(r).Value().data[0] == 7;
    } else if (form == 2) {
      auto t = yaclib::MakeTask<Blob>(std::move(v));
      allocs = News() - a0;
      auto r = std::move(t).Get();
      intact = std::as_const(r).Value().data.size() == 8 && std::as_const(r).Value().data[0] == 7;
    } else {
      auto f = yaclib::MakeFuture(std::move(v));
      allocs = News() - a0;
      auto r = std::move(f).Get();
      intact = std::as_const(r).Value().data.size() == 8 && std::as_const(r).Value().data[0] == 7;
    }
    limit = 1;
  }
  long copies = Blob::copies - c0;
  static const char* const kForm[] = {"co_await std::move(future<heap value>)", "MakeTask(std::move(v))", "MakeTask<V>(std::move(v))",
                                      "MakeFuture(std::move(v))"};
  ctx.Note("%s%s: %ld allocations (limit %ld), %ld payload copies", kForm[form], form == 0 ? (ready ? ", ready" : ", completed later") : "",
           allocs, limit, copies);
  ctx.SetNontrivial(true);
  ctx.Observe(static_cast<u64>(form * 2 + (ready ? 1 : 0)));
  ctx.Check(allocs <= limit, form == 0 ? "co-await-allocates" : "step-allocations", "C20", "%s made %ld heap allocations, at most %ld allowed",
            kForm[form], allocs, limit);
  ctx.Check(copies == 0, "payload-copied", "C20", "%s copied the heap-owning payload %ld times instead of moving it", kForm[form], copies);
  ctx.Check(intact, "value-intact", "C20", "%s delivered a different value", kForm[form]);
}
#endif

}  // namespace

VF_CELL(al_comb_dyn, "combinators/iterator", "C20", 10) {
  CombinatorCase(ctx, false);
}
VF_CELL(al_comb_sta, "combinators/static", "C20", 6) {
  CombinatorCase(ctx, true);
}
VF_CELL(al_wait, "wait-and-get", "C20", 14) {
  WaitCase(ctx);
}
VF_CELL(al_unwrap, "unwrapping-step", "C20", 5) {
  UnwrapCase(ctx);
}
VF_CELL(al_strand, "strand-submit", "C20", 3) {
  StrandCase(ctx);
}
#if YACLIB_CORO != 0
VF_CELL(al_heapvalue, "heap-value-moves", "C20", 4) {
  HeapValueCase(ctx);
}
VF_CELL(al_coawait, "co-await", "C20", 6) {
  CoAwaitCase(ctx);
}
#endif

int main(int argc, char** argv) {
  return vf::Main(argc, argv, "alloc");
}
