// fam_atomdiff — C19: yaclib_std::atomic<T> / atomic_flag / fences  ==  std::atomic<T>, in lock-step.
//
// The same generated operation sequence is applied to a yaclib_std::atomic<T> and to a std::atomic<T>; after every
// operation the return value (and `expected` for CAS) and a load() of both are compared (bitwise for floating point).
// Built against the FIBER backend (hand-written re-implementation) and the THREAD backend (wrapper).
#include "vf.hpp"

#include <yaclib_std/atomic>

#include <atomic>
#include <cstring>
#include <limits>
#include <type_traits>

using namespace vf;

namespace {

// equal value representation; two NaNs count as equal (the sign/payload of an arithmetic NaN result is unspecified)
template <typename T>
bool SameBits(T a, T b) {
  if constexpr (std::is_floating_point_v<T>) {
    if (a != a && b != b) {
      return true;
    }
  }
  return std::memcmp(&a, &b, sizeof(T)) == 0;
}

template <typename T>
std::string Show(T v) {
  char b[64];
  if constexpr (std::is_pointer_v<T>) {
    std::snprintf(b, sizeof b, "%p", static_cast<const void*>(v));
  } else if constexpr (std::is_floating_point_v<T>) {
    std::snprintf(b, sizeof b, "%a", static_cast<double>(v));
  } else if constexpr (std::is_signed_v<T>) {
    std::snprintf(b, sizeof b, "%lld", static_cast<long long>(v));
  } else {
    std::snprintf(b, sizeof b, "%llu", static_cast<unsigned long long>(v));
  }
  return b;
}

inline std::memory_order Order(Rng& r, bool for_load, bool for_store) {
  if (for_load) {
    static const std::memory_order o[] = {std::memory_order_relaxed, std::memory_order_acquire, std::memory_order_seq_cst};
    return o[r.Below(3)];
  }
  if (for_store) {
    static const std::memory_order o[] = {std::memory_order_relaxed, std::memory_order_release, std::memory_order_seq_cst};
    return o[r.Below(3)];
  }
  static const std::memory_order o[] = {std::memory_order_relaxed, std::memory_order_acquire, std::memory_order_release,
                                        std::memory_order_acq_rel, std::memory_order_seq_cst};
  return o[r.Below(5)];
}

template <typename T>
T Operand(Rng& r) {
  if constexpr (std::is_same_v<T, bool>) {
    return r.Coin();
  } else if constexpr (std::is_integral_v<T>) {
    using L = std::numeric_limits<T>;
    switch (r.Below(10)) {
      case 0:
        return 0;
      case 1:
        return 1;
      case 2:
        return static_cast<T>(-1);
      case 3:
        return L::min();
      case 4:
        return L::max();
      case 5:
        return static_cast<T>(L::max() - 1);
      case 6:
        return static_cast<T>(T{1} << (sizeof(T) * 8 - 1));
      case 7:
        return static_cast<T>(r.Below(16));
      default:
        return static_cast<T>(r.Next());
    }
  } else if constexpr (std::is_floating_point_v<T>) {
    switch (r.Below(10)) {
      case 0:
        return T{0};
      case 1:
        return -T{0};
      case 2:
        return T{1};
      case 3:
        return std::numeric_limits<T>::max();
      case 4:
        return std::numeric_limits<T>::denorm_min();
      case 5:
        return std::numeric_limits<T>::infinity();
      case 6:
        return std::numeric_limits<T>::quiet_NaN();
      case 7:
        return static_cast<T>(0.1);
      default:
        return static_cast<T>(static_cast<double>(r.Below(2000000)) / 7.0 - 100000.0);
    }
  } else {
    return T{};
  }
}

struct Diff {
  Ctx& ctx;
  const char* tname;
  bool stop = false;
  template <typename T>
  void Ret(const char* op, T got, T want, const std::string& operands) {
    ctx.events++;
    if (!SameBits(got, want) && !stop) {
      stop = true;
      ctx.Fail(op, "C19", "atomic<%s>::%s(%s) returned %s, std::atomic returned %s", tname, op, operands.c_str(),
               Show(got).c_str(), Show(want).c_str());
    }
  }
  template <typename T>
  void Stored(const char* op, T got, T want, const std::string& operands) {
    ctx.events++;
    if (!SameBits(got, want) && !stop) {
      stop = true;
      ctx.Fail(op, "C19", "after atomic<%s>::%s(%s) the stored value is %s, std::atomic holds %s", tname, op,
               operands.c_str(), Show(got).c_str(), Show(want).c_str());
    }
  }
  void Bool(const char* op, bool got, bool want, const std::string& operands) {
    ctx.events++;
    if (got != want && !stop) {
      stop = true;
      ctx.Fail(op, "C19", "atomic<%s>::%s(%s) returned %d, std::atomic returned %d", tname, op, operands.c_str(),
               (int)got, (int)want);
    }
  }
};

// one operation on both atomics; op index is chosen by the caller
template <typename T, typename A, typename B>
void GenericOp(Diff& d, Rng& r, A& a, B& b, u32 op) {
  T x = Operand<T>(r);
  std::string xs = Show(x);
  switch (op) {
    case 0: {
      auto o = Order(r, true, false);
      d.Ret<T>("load", a.load(o), b.load(o), "");
    } break;
    case 1: {
      auto o = Order(r, false, true);
      a.store(x, o);
      b.store(x, o);
    } break;
    case 2: {
#if YACLIB_FAULT == 2
      // (the THREAD wrapper's operator=(T) is hidden by its deleted move assignment and does not compile; assignment is
      // not among the operations C19 lists, so the thread build uses store here — see DESIGN note N4)
      T ra = (a = x);
      T rb = (b = x);
      d.Ret<T>("operator=", ra, rb, xs);
#else
      a.store(x);
      b.store(x);
#endif
    } break;
    case 3: {
      auto o = Order(r, false, false);
      d.Ret<T>("exchange", a.exchange(x, o), b.exchange(x, o), xs);
    } break;
    case 4:
    case 5:
    case 6:
    case 7: {
      // CAS; expected is the current value half of the time
      T cur = b.load();
      T ea = r.Coin() ? cur : Operand<T>(r);
      T eb = ea;
      bool strong = (op & 1) != 0;
      bool two = op >= 6;
      bool ra, rb;
      if (two) {
        auto so = Order(r, false, false);
        auto fo = Order(r, true, false);
        ra = strong ? a.compare_exchange_strong(ea, x, so, fo) : a.compare_exchange_weak(ea, x, so, fo);
        rb = strong ? b.compare_exchange_strong(eb, x, so, fo) : b.compare_exchange_strong(eb, x, so, fo);
      } else {
        auto o = Order(r, false, false);
        ra = strong ? a.compare_exchange_strong(ea, x, o) : a.compare_exchange_weak(ea, x, o);
        rb = strong ? b.compare_exchange_strong(eb, x, o) : b.compare_exchange_strong(eb, x, o);
      }
      const char* name = strong ? "compare_exchange_strong" : "compare_exchange_weak";
      d.Bool(name, ra, rb, "expected=" + Show(eb) + " desired=" + xs + " current=" + Show(cur));
      d.Ret<T>(name, ea, eb, "expected after call; desired=" + xs + " current=" + Show(cur));
    } break;
    default: {
      T ra = a;
      T rb = b;
      d.Ret<T>("operator T", ra, rb, "");
    } break;
  }
  d.Stored<T>("(store check)", a.load(), b.load(), "after generic op " + std::to_string(op) + " operand " + xs);
}

template <typename T, typename A, typename B>
void IntegralOp(Diff& d, Rng& r, A& a, B& b, u32 op, T x) {
  std::string xs = Show(x);
  auto o = Order(r, false, false);
  const char* name = "?";
  switch (op) {
    case 0:
      name = "fetch_add";
      d.Ret<T>(name, a.fetch_add(x, o), b.fetch_add(x, o), xs);
      break;
    case 1:
      name = "fetch_sub";
      d.Ret<T>(name, a.fetch_sub(x, o), b.fetch_sub(x, o), xs);
      break;
    case 2:
      name = "fetch_and";
      d.Ret<T>(name, a.fetch_and(x, o), b.fetch_and(x, o), xs);
      break;
    case 3:
      name = "fetch_or";
      d.Ret<T>(name, a.fetch_or(x, o), b.fetch_or(x, o), xs);
      break;
    case 4:
      name = "fetch_xor";
      d.Ret<T>(name, a.fetch_xor(x, o), b.fetch_xor(x, o), xs);
      break;
    case 5:
      name = "pre-increment";
      d.Ret<T>(name, ++a, ++b, "");
      break;
    case 6:
      name = "post-increment";
      d.Ret<T>(name, a++, b++, "");
      break;
    case 7:
      name = "pre-decrement";
      d.Ret<T>(name, --a, --b, "");
      break;
    case 8:
      name = "post-decrement";
      d.Ret<T>(name, a--, b--, "");
      break;
    case 9:
      name = "operator+=";
      d.Ret<T>(name, a += x, b += x, xs);
      break;
    case 10:
      name = "operator-=";
      d.Ret<T>(name, a -= x, b -= x, xs);
      break;
    case 11:
      name = "operator&=";
      d.Ret<T>(name, a &= x, b &= x, xs);
      break;
    case 12:
      name = "operator|=";
      d.Ret<T>(name, a |= x, b |= x, xs);
      break;
    default:
      name = "operator^=";
      d.Ret<T>(name, a ^= x, b ^= x, xs);
      break;
  }
  d.Stored<T>(name, a.load(), b.load(), xs);
}
constexpr u32 kIntegralOps = 14;

template <typename T, typename A, typename B>
void FloatOp(Diff& d, Rng& r, A& a, B& b, u32 op) {
  T x = Operand<T>(r);
  std::string xs = Show(x);
  auto o = Order(r, false, false);
  const char* name;
  switch (op) {
    case 0:
      name = "fetch_add";
      d.Ret<T>(name, a.fetch_add(x, o), b.fetch_add(x, o), xs);
      break;
    case 1:
      name = "fetch_sub";
      d.Ret<T>(name, a.fetch_sub(x, o), b.fetch_sub(x, o), xs);
      break;
    case 2:
      name = "operator+=";
      d.Ret<T>(name, a += x, b += x, xs);
      break;
    default:
      name = "operator-=";
      d.Ret<T>(name, a -= x, b -= x, xs);
      break;
  }
  d.Stored<T>(name, a.load(), b.load(), xs);
  // keep the two objects bit-identical for later (bitwise) CAS comparisons
  T va = a.load(), vb = b.load();
  if (va != va && vb != vb && std::memcmp(&va, &vb, sizeof(T)) != 0) {
    a.store(std::numeric_limits<T>::quiet_NaN());
    b.store(std::numeric_limits<T>::quiet_NaN());
  }
}

template <typename T, bool Volatile = false>
void SequenceCase(Ctx& ctx, const char* tname) {
  yaclib::SetAtomicFailFrequency(0);  // weak CAS must then behave like strong
  T init = Operand<T>(ctx.rng);
  std::conditional_t<Volatile, volatile yaclib_std::atomic<T>, yaclib_std::atomic<T>> a{init};
  std::conditional_t<Volatile, volatile std::atomic<T>, std::atomic<T>> b{init};
  Diff d{ctx, tname};
  int len = 30;
  ctx.Note("atomic<%s> init=%s, %d random operations in lock-step with std::atomic", tname, Show(init).c_str(), len);
  d.Stored<T>("constructor", a.load(), b.load(), Show(init));
  for (int i = 0; i < len && !d.stop; ++i) {
    u32 kind = ctx.rng.Below(3);
    if constexpr (Volatile) {
      // (the wrapper's volatile arithmetic operators do not compile, note N6: volatile objects get the generic set)
      (void)kind;
      GenericOp<T>(d, ctx.rng, a, b, ctx.rng.Below(9));
    } else if (kind == 0 || std::is_same_v<T, bool>) {
      GenericOp<T>(d, ctx.rng, a, b, ctx.rng.Below(9));
    } else if constexpr (std::is_integral_v<T> && !std::is_same_v<T, bool>) {
      IntegralOp<T>(d, ctx.rng, a, b, ctx.rng.Below(kIntegralOps), Operand<T>(ctx.rng));
    } else if constexpr (std::is_floating_point_v<T>) {
      FloatOp<T>(d, ctx.rng, a, b, ctx.rng.Below(4));
    } else {
      GenericOp<T>(d, ctx.rng, a, b, ctx.rng.Below(9));
    }
  }
  ctx.SetNontrivial(true);
  ctx.Observe(ctx.rng.s);
}

// exhaustive: start value = idx % 256, every operand, every single integral operation
template <typename T>
void Exhaustive8(Ctx& ctx, const char* tname) {
  yaclib::SetAtomicFailFrequency(0);
  Diff d{ctx, tname};
  T start = static_cast<T>(ctx.idx % 256);
  ctx.Note("atomic<%s> exhaustive: start=%s x all 256 operands x %u single operations", tname, Show(start).c_str(),
           kIntegralOps);
  Rng r{ctx.idx};
  for (int xi = 0; xi < 256 && !d.stop; ++xi) {
    T x = static_cast<T>(xi);
    for (u32 op = 0; op < kIntegralOps && !d.stop; ++op) {
      yaclib_std::atomic<T> a{start};
      std::atomic<T> b{start};
      IntegralOp<T>(d, r, a, b, op, x);
    }
    // CAS with expected = x, desired = ~x
    yaclib_std::atomic<T> a{start};
    std::atomic<T> b{start};
    T ea = x, eb = x;
    bool ra = a.compare_exchange_strong(ea, static_cast<T>(~xi));
    bool rb = b.compare_exchange_strong(eb, static_cast<T>(~xi));
    d.Bool("compare_exchange_strong", ra, rb, Show(x));
    d.Ret<T>("compare_exchange_strong", ea, eb, "expected after call");
    d.Stored<T>("compare_exchange_strong", a.load(), b.load(), Show(x));
    T ea2 = x, eb2 = x;
    yaclib_std::atomic<T> a2{start};
    std::atomic<T> b2{start};
    bool ra2 = a2.compare_exchange_weak(ea2, static_cast<T>(~xi));
    bool rb2 = b2.compare_exchange_strong(eb2, static_cast<T>(~xi));
    d.Bool("compare_exchange_weak", ra2, rb2, Show(x));
    d.Ret<T>("compare_exchange_weak", ea2, eb2, "expected after call");
    d.Stored<T>("compare_exchange_weak", a2.load(), b2.load(), Show(x));
  }
  ctx.SetNontrivial(true);
  ctx.Observe(ctx.idx % 256);
}

void PointerCase(Ctx& ctx) {
  yaclib::SetAtomicFailFrequency(0);
  static int arr[4096];
  Diff d{ctx, "int*"};
  long pos = 2048;
  yaclib_std::atomic<int*> a{arr + pos};
  std::atomic<int*> b{arr + pos};
  ctx.Note("atomic<int*> pointer arithmetic and CAS in lock-step (30 operations, offsets kept inside one array)");
  for (int i = 0; i < 30 && !d.stop; ++i) {
    long k = static_cast<long>(ctx.rng.Below(17)) - 8;
    if (pos + k < 8 || pos + k > 4088) {
      k = -k;
    }
    auto o = Order(ctx.rng, false, false);
    std::string ks = std::to_string(k);
    const char* name;
    switch (ctx.rng.Below(12)) {
      case 0:
        name = "fetch_add";
        d.Ret<int*>(name, a.fetch_add(k, o), b.fetch_add(k, o), ks);
        pos += k;
        break;
      case 1:
        name = "fetch_sub";
        d.Ret<int*>(name, a.fetch_sub(k, o), b.fetch_sub(k, o), ks);
        pos -= k;
        break;
      case 2:
        name = "pre-increment";
        d.Ret<int*>(name, ++a, ++b, "");
        pos += 1;
        break;
      case 3:
        name = "post-increment";
        d.Ret<int*>(name, a++, b++, "");
        pos += 1;
        break;
      case 4:
        name = "pre-decrement";
        d.Ret<int*>(name, --a, --b, "");
        pos -= 1;
        break;
      case 5:
        name = "post-decrement";
        d.Ret<int*>(name, a--, b--, "");
        pos -= 1;
        break;
      case 6:
        name = "operator+=";
        d.Ret<int*>(name, a += k, b += k, ks);
        pos += k;
        break;
      case 7:
        name = "operator-=";
        d.Ret<int*>(name, a -= k, b -= k, ks);
        pos -= k;
        break;
      case 8: {
        name = "exchange";
        int* x = arr + 2048 + k;
        d.Ret<int*>(name, a.exchange(x, o), b.exchange(x, o), ks);
        pos = 2048 + k;
      } break;
      case 9: {
        name = "compare_exchange_strong";
        int* ea = ctx.rng.Coin() ? arr + pos : arr + 7;
        int* eb = ea;
        int* x = arr + 2048 + k;
        bool ra = a.compare_exchange_strong(ea, x, o);
        bool rb = b.compare_exchange_strong(eb, x, o);
        d.Bool(name, ra, rb, ks);
        d.Ret<int*>(name, ea, eb, "expected after call");
        if (rb) {
          pos = 2048 + k;
        }
      } break;
      case 10: {
        name = "compare_exchange_weak";
        int* ea = ctx.rng.Coin() ? arr + pos : arr + 7;
        int* eb = ea;
        int* x = arr + 2048 + k;
        bool ra = a.compare_exchange_weak(ea, x, o, std::memory_order_relaxed);
        bool rb = b.compare_exchange_strong(eb, x, o, std::memory_order_relaxed);
        d.Bool(name, ra, rb, ks);
        d.Ret<int*>(name, ea, eb, "expected after call");
        if (rb) {
          pos = 2048 + k;
        }
      } break;
      default:
        name = "load";
        d.Ret<int*>(name, a.load(), b.load(), "");
        break;
    }
    d.Stored<int*>(name, a.load(), b.load(), ks);
  }
  ctx.SetNontrivial(true);
  ctx.Observe(ctx.rng.s);
}

void FlagAndFenceCase(Ctx& ctx) {
  yaclib_std::atomic_flag a = ATOMIC_FLAG_INIT;
  std::atomic_flag b = ATOMIC_FLAG_INIT;
  Diff d{ctx, "flag"};
  ctx.Note("atomic_flag test_and_set/clear and fences in lock-step");
  for (int i = 0; i < 24 && !d.stop; ++i) {
    auto o = Order(ctx.rng, false, false);
    switch (ctx.rng.Below(4)) {
      case 0:
        d.Bool("test_and_set", a.test_and_set(o), b.test_and_set(o), "");
        break;
      case 1: {
        auto so = Order(ctx.rng, false, true);
        a.clear(so);
        b.clear(so);
      } break;
      case 2:
        yaclib_std::atomic_thread_fence(o);
        std::atomic_thread_fence(o);
        break;
      default:
        yaclib_std::atomic_signal_fence(o);
        std::atomic_signal_fence(o);
        break;
    }
    // observe without disturbing: test_and_set on copies is impossible, so compare through a set+restore pair
    bool ta = a.test_and_set();
    bool tb = b.test_and_set();
    d.Bool("test_and_set", ta, tb, "(state probe)");
    if (!tb) {
      a.clear();
      b.clear();
    }
  }
  ctx.SetNontrivial(true);
  ctx.Observe(ctx.rng.s);
}

// spurious failure contract of compare_exchange_weak; strong never fails spuriously
template <typename T>
void SpuriousCase(Ctx& ctx, const char* tname) {
  T cur = Operand<T>(ctx.rng);
  T des = Operand<T>(ctx.rng);
  ctx.Note("atomic<%s> spurious-failure contract: frequency 1 (always), 0 (never), 2 (sometimes); current=%s desired=%s",
           tname, Show(cur).c_str(), Show(des).c_str());
  if constexpr (std::is_floating_point_v<T>) {
    if (cur != cur) {
      cur = T{1};
    }
  }
  {
    yaclib::SetAtomicFailFrequency(1);
    yaclib_std::atomic<T> a{cur};
    T e = cur;
    bool r = a.compare_exchange_weak(e, des);
#if YACLIB_FAULT != 0
    ctx.Check(!r, "spurious-weak", "C19", "atomic<%s>: weak CAS succeeded although failure frequency is 1 (always fail)",
              tname);
#endif
    if (!r) {
      ctx.Check(SameBits(e, cur), "spurious-weak", "C19",
                "atomic<%s>: spuriously failed weak CAS stored %s into expected, current value is %s", tname,
                Show(e).c_str(), Show(cur).c_str());
      ctx.Check(SameBits(a.load(), cur), "spurious-weak", "C19",
                "atomic<%s>: spuriously failed weak CAS changed the stored value to %s", tname, Show(a.load()).c_str());
    }
    // a spurious failure must still load the current value into `expected` when they differ
    {
      T other = Operand<T>(ctx.rng);
      if (!SameBits(other, cur)) {
        T e3 = other;
        bool r3 = a.compare_exchange_weak(e3, des, std::memory_order_acq_rel, std::memory_order_acquire);
        ctx.Check(!r3 && SameBits(e3, cur), "spurious-weak", "C19",
                  "atomic<%s>: failed weak CAS (frequency 1) with expected=%s left expected=%s, the stored value is %s (returned %d)",
                  tname, Show(other).c_str(), Show(e3).c_str(), Show(cur).c_str(), (int)r3);
        T e4 = other;
        bool r4 = a.compare_exchange_weak(e4, des);
        ctx.Check(!r4 && SameBits(e4, cur), "spurious-weak", "C19",
                  "atomic<%s>: failed weak CAS (single-order overload) left expected=%s, the stored value is %s", tname,
                  Show(e4).c_str(), Show(cur).c_str());
      }
    }
    T e2 = cur;
    bool r2 = a.compare_exchange_strong(e2, des);
    ctx.Check(r2 && SameBits(a.load(), des), "spurious-strong", "C19",
              "atomic<%s>: compare_exchange_strong failed spuriously (expected matched, returned %d)", tname, (int)r2);
    // every overload of compare_exchange_strong, still under "always fail": none may fail when expected matches
    auto strong_forms = [&](auto& obj, const char* what) {
      for (int form = 0; form < 3; ++form) {
        obj.store(cur);
        T e5 = cur;
        bool r5 = form == 0   ? obj.compare_exchange_strong(e5, des)
                  : form == 1 ? obj.compare_exchange_strong(e5, des, std::memory_order_acq_rel)
                              : obj.compare_exchange_strong(e5, des, std::memory_order_acq_rel, std::memory_order_acquire);
        ctx.Check(r5 && SameBits(obj.load(), des), "spurious-strong", "C19",
                  "%s atomic<%s>: compare_exchange_strong (overload %d) failed spuriously", what, tname, form);
      }
    };
    strong_forms(a, "");
#if YACLIB_FAULT == 1
    // (the FIBER implementation's volatile compare_exchange overloads do not compile, see DESIGN note N6)
    volatile yaclib_std::atomic<T> va{cur};
    strong_forms(va, "volatile");
#endif
  }
  {
    yaclib::SetAtomicFailFrequency(0);
    yaclib_std::atomic<T> a{cur};
    T e = cur;
    bool r = a.compare_exchange_weak(e, des, std::memory_order_acq_rel, std::memory_order_acquire);
    ctx.Check(r && SameBits(a.load(), des), "spurious-weak", "C19",
              "atomic<%s>: weak CAS failed although failure frequency is 0 (returned %d)", tname, (int)r);
  }
  {
    // CAS loop under frequent spurious failures must still terminate with the right value
    yaclib::SetAtomicFailFrequency(2);
    yaclib_std::atomic<T> a{cur};
    T e = a.load();
    int spins = 0;
    T other = Operand<T>(ctx.rng);
    e = other;  // usually stale: every failure, spurious or not, must refresh it
    while (!a.compare_exchange_weak(e, des) && ++spins < 10000) {
      if (!SameBits(e, a.load())) {
        ctx.Fail("spurious-weak", "C19", "atomic<%s>: a failed weak CAS (frequency 2) left expected=%s while the stored value is %s",
                 tname, Show(e).c_str(), Show(a.load()).c_str());
        break;
      }
    }
    ctx.Check(spins < 10000 && SameBits(a.load(), des), "spurious-weak", "C19",
              "atomic<%s>: CAS loop with failure frequency 2 ended after %d spins with value %s", tname, spins,
              Show(a.load()).c_str());
  }
  yaclib::SetAtomicFailFrequency(0);
  ctx.SetNontrivial(true);
  ctx.Observe(ctx.rng.s);
}

}  // namespace

#define SEQ_CELL(ident, T, name, w)                                                                                    \
  VF_CELL(seq_##ident, "seq/" name, "C19", w) {                                                                        \
    SequenceCase<T>(ctx, name);                                                                                        \
  }                                                                                                                    \
  VF_CELL(spur_##ident, "spurious/" name, "C19", 2) {                                                                  \
    SpuriousCase<T>(ctx, name);                                                                                        \
  }

SEQ_CELL(b, bool, "bool", 4)
SEQ_CELL(i8, std::int8_t, "int8", 8)
SEQ_CELL(u8, std::uint8_t, "uint8", 8)
SEQ_CELL(i16, std::int16_t, "int16", 8)
SEQ_CELL(u16, std::uint16_t, "uint16", 8)
SEQ_CELL(i32, std::int32_t, "int32", 8)
SEQ_CELL(u32, std::uint32_t, "uint32", 8)
SEQ_CELL(i64, std::int64_t, "int64", 8)
SEQ_CELL(u64, std::uint64_t, "uint64", 8)
SEQ_CELL(f32, float, "float", 8)
SEQ_CELL(f64, double, "double", 8)

#if YACLIB_FAULT == 1
// volatile-qualified objects go through a separate overload set of the wrapper (THREAD backend only, see N6)
#  define VSEQ_CELL(ident, T, name, w)                                                                                 \
    VF_CELL(vseq_##ident, "seq-volatile/" name, "C19", w) {                                                            \
      SequenceCase<T, true>(ctx, name);                                                                                \
    }
VSEQ_CELL(b, bool, "bool", 1)
VSEQ_CELL(i8, std::int8_t, "int8", 2)
VSEQ_CELL(u16, std::uint16_t, "uint16", 2)
VSEQ_CELL(i32, std::int32_t, "int32", 2)
VSEQ_CELL(u64, std::uint64_t, "uint64", 2)
VSEQ_CELL(f64, double, "double", 2)
#endif

VF_CELL(ptr_seq, "seq/pointer", "C19", 8) {
  PointerCase(ctx);
}
VF_CELL(flag_seq, "seq/flag-and-fences", "C19", 4) {
  FlagAndFenceCase(ctx);
}
VF_CELL(ex_i8, "exhaustive/int8", "C19", 3) {
  Exhaustive8<std::int8_t>(ctx, "int8");
}
VF_CELL(ex_u8, "exhaustive/uint8", "C19", 3) {
  Exhaustive8<std::uint8_t>(ctx, "uint8");
}

int main(int argc, char** argv) {
  return vf::Main(argc, argv, "atomdiff");
}
