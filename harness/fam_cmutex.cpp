// fam_cmutex — C14 (coroutine Mutex) and C15 (coroutine SharedMutex); also feeds C03, C04, C13.
#include "vf_exec.hpp"

#include <yaclib/async/wait.hpp>
#include <yaclib/coro/await.hpp>
#include <yaclib/coro/future.hpp>
#include <yaclib/coro/guard.hpp>
#include <yaclib/coro/guard_sticky.hpp>
#include <yaclib/coro/mutex.hpp>
#include <yaclib/coro/on.hpp>
#include <yaclib/coro/shared_mutex.hpp>

#include <deque>
#include <vector>

using namespace vf;

namespace {

inline void Jitter(u32 n) {
#if VF_FIBER
  for (u32 i = 0; i < n; ++i) {
    yaclib_std::this_thread::yield();
  }
#else
  for (volatile u32 i = 0; i < n * 40; ++i) {
  }
#endif
}

enum LockForm { lLock, lGuard, lGuardSticky, lTryLock, lTryGuard, lGuardRelock, lDeferredTryLock, lCoupling, kLockForms };
const char* const kLockName[] = {"Lock", "Guard", "GuardSticky", "TryLock", "TryGuard", "Guard+re-Lock", "deferred-guard.TryLock",
                                 "Guard, then move-assigned the Guard of a second mutex"};
enum UnlockForm { uUnlock, uUnlockOn, uUnlockHere, uDtor, kUnlockForms };
const char* const kUnlockName[] = {"Unlock", "UnlockOn", "UnlockHere", "guard-dtor"};

struct Round {
  int lock_form = 0;
  int unlock_form = 0;
  u32 cs_yields = 0;
  u32 cs_suspend = 0;  // suspensions of the coroutine while it holds the lock
  bool sticky_relock = false;  // GuardSticky: after Unlock, lock again through the same guard from another executor
  u32 gap = 0;
};

struct Grant {
  u64 request = 0;
  u64 granted = 0;
  int coro = 0;
  bool blocking = false;
};

struct MWorld {
  std::atomic<int> inside{0};
  std::atomic<int> max_inside{0};
  std::atomic<long> requests{0};
  std::atomic<long> grants{0};
  std::atomic<long> try_fail{0};
  std::atomic<int> failed_try_owns{0};  // a guard reported ownership after its TryLock() returned false
  std::atomic<int> inside2{0}, overlap2{0}, coupling_bad{0};  // second mutex of the lock-coupling form
  long plain = 0;  // written in every critical section, read in the next one
  std::atomic<int> lost_update{0};
  std::atomic<u32> nlog{0};
  Grant log[64];
};

inline void Enter(MWorld& w, u64 request, int coro, bool blocking) {
  u64 g = Stamp();
  int in = w.inside.fetch_add(1, kRlx) + 1;
  int mx = w.max_inside.load(kRlx);
  while (in > mx && !w.max_inside.compare_exchange_weak(mx, in, kRlx)) {
  }
  w.grants.fetch_add(1, kRlx);
  VF_W(w.plain, "C04,C14");
  long before = w.plain;
  w.plain = before + 1;
  u32 pos = w.nlog.fetch_add(1, kRlx);
  if (pos < 64) {
    w.log[pos] = {request, g, coro, blocking};
  }
}
inline void Leave(MWorld& w) {
  w.inside.fetch_sub(1, kRlx);
}

// inside a critical section: a few yields of the worker and, sometimes, real suspensions of the coroutine (it re-submits
// itself to its pool while holding the lock, so that the others run, find the lock taken and queue up behind it - on
// a single worker this is the only way waiters can exist at all)
#define VF_HOLD_SECTION()                                                                                              \
  Jitter(rd.cs_yields);                                                                                                \
  for (u32 hs = 0; hs < rd.cs_suspend; ++hs) {                                                                         \
    co_await yaclib::On(e1);                                                                                           \
  }

template <bool Batching, bool FIFO>
void MutexCase(Ctx& ctx) {
  ResetTags();
  using M = yaclib::Mutex<Batching, FIFO>;
  int k = static_cast<int>(ctx.rng.In(2, 5));
  int n = static_cast<int>(ctx.rng.In(1, 3));
  std::vector<std::vector<Round>> plan(static_cast<std::size_t>(k));
  long total = 0;
  ctx.Note("Mutex<Batching=%d,FIFO=%d> %d coroutines on %d workers: ", (int)Batching, (int)FIFO, k, n);
  for (auto& p : plan) {
    int rounds = static_cast<int>(ctx.rng.In(1, 3));
    for (int r = 0; r < rounds; ++r) {
      Round rd;
      rd.lock_form = static_cast<int>(ctx.rng.Below(kLockForms));
      rd.unlock_form = static_cast<int>(ctx.rng.Below(kUnlockForms));
      rd.cs_yields = ctx.rng.Below(3);
      rd.cs_suspend = ctx.rng.Below(3) == 0 ? ctx.rng.In(1, 2) : 0;
      rd.sticky_relock = ctx.rng.Coin();
      if (rd.lock_form == lGuardSticky && rd.sticky_relock && (rd.unlock_form == uUnlock || rd.unlock_form == uUnlockOn)) {
        ++total;  // the second acquisition through the same guard
      }
      rd.gap = ctx.rng.Below(3);
      p.push_back(rd);
      ++total;
      ctx.Note("%s/%s ", kLockName[rd.lock_form], kUnlockName[rd.unlock_form]);
    }
    ctx.Note("| ");
  }
  MWorld w;
  M m;
  M m2;
  auto pool = yaclib::MakeFairThreadPool(static_cast<std::uint64_t>(n));
  auto pool2 = yaclib::MakeFairThreadPool(1);
  TagExec e1{1, *pool};
  TagExec e2{2, *pool2};
  std::atomic<int> bad_tag{0};
  std::atomic<int> bad_tag_relock{0}, bad_tag_relock_seen{-1};
  bool any_relock = false;
  for (auto& pl : plan) {
    for (auto& rd : pl) {
      any_relock = any_relock || (rd.lock_form == lGuardSticky && rd.sticky_relock &&
                                  (rd.unlock_form == uUnlock || rd.unlock_form == uUnlockOn));
    }
  }

  auto body = [&](int id) -> yaclib::Future<> {
    co_await yaclib::On(e1);
    for (auto& rd : plan[static_cast<std::size_t>(id)]) {
      if (CurTag() != 1) {
        // with Batching a waiter is resumed on the thread of whoever unlocked, which may be the second executor's
        // (the sticky re-lock holds the lock there); every round starts from e1 so that the expectations below hold
        co_await yaclib::On(e1);
      }
      w.requests.fetch_add(1, kRlx);
      u64 req = Stamp();
      switch (rd.lock_form) {
        case lLock: {
          co_await m.Lock();
          Enter(w, req, id, true);
          VF_HOLD_SECTION();
          Leave(w);
          if (rd.unlock_form == uUnlock) {
            co_await m.Unlock();
          } else if (rd.unlock_form == uUnlockOn) {
            co_await m.UnlockOn(e2);
            if (CurTag() != 2) {
              bad_tag.fetch_add(1, kRlx);
            }
            co_await yaclib::On(e1);
          } else {
            m.UnlockHere();
          }
        } break;
        case lGuard:
        case lGuardRelock: {
          auto g = co_await m.Guard();
          Enter(w, req, id, true);
          VF_HOLD_SECTION();
          Leave(w);
          if (rd.lock_form == lGuardRelock) {
            co_await g.Unlock();
            w.requests.fetch_add(1, kRlx);
            u64 req2 = Stamp();
            co_await g.Lock();
            Enter(w, req2, id, true);
            Leave(w);
          }
          if (rd.unlock_form == uUnlock) {
            co_await g.Unlock();
          } else if (rd.unlock_form == uUnlockOn) {
            co_await g.UnlockOn(e2);
            if (CurTag() != 2) {
              bad_tag.fetch_add(1, kRlx);
            }
            co_await yaclib::On(e1);
          } else if (rd.unlock_form == uUnlockHere) {
            g.UnlockHere();
          }
          // uDtor: destructor releases
        } break;
        case lCoupling: {
          // lock coupling: the guard of the first mutex is overwritten by the guard of the second one; move assignment
          // must release what the target owned (here through the temporary that takes it over)
          auto g = co_await m.Guard();
          Enter(w, req, id, true);
          VF_HOLD_SECTION();
          Leave(w);
          g = co_await m2.Guard();
          if (!g.OwnsLock() || g.Mutex() != &m2) {
            w.coupling_bad.fetch_add(1, kRlx);
          }
          if (w.inside2.fetch_add(1, kRlx) != 0) {
            w.overlap2.fetch_add(1, kRlx);
          }
          Jitter(1);
          w.inside2.fetch_sub(1, kRlx);
          if (rd.unlock_form == uUnlockHere) {
            g.UnlockHere();
          }
        } break;
        case lGuardSticky: {
          auto g = co_await m.GuardSticky();
          Enter(w, req, id, true);
          VF_HOLD_SECTION();
          Leave(w);
          if (rd.unlock_form == uUnlock || rd.unlock_form == uUnlockOn) {
            co_await g.Unlock();
            // sticky: back on the executor the coroutine had when it asked for the lock
            if (CurTag() != 1) {
              bad_tag.fetch_add(1, kRlx);
            }
            if (rd.sticky_relock) {
              // the same guard object is used again from another executor: "home" is now that executor, whatever
              // the guard remembered from its first (possibly contended) acquisition
              co_await yaclib::On(e2);
              w.requests.fetch_add(1, kRlx);
              u64 req2 = Stamp();
              co_await g.Lock();
              Enter(w, req2, id, true);
              Jitter(rd.cs_yields);
              Leave(w);
              co_await g.Unlock();
              if (CurTag() != 2) {
                bad_tag_relock.fetch_add(1, kRlx);
                bad_tag_relock_seen.store(CurTag(), kRlx);
              }
              co_await yaclib::On(e1);
            }
          } else if (rd.unlock_form == uUnlockHere) {
            g.UnlockHere();
          }
        } break;
        case lTryLock: {
          while (!m.TryLock()) {
            w.try_fail.fetch_add(1, kRlx);
            co_await yaclib::On(e1);  // give way without occupying the worker
            req = Stamp();
          }
          Enter(w, req, id, false);
          VF_HOLD_SECTION();
          Leave(w);
          if (rd.unlock_form == uUnlock) {
            co_await m.Unlock();
          } else {
            m.UnlockHere();
          }
        } break;
        case lDeferredTryLock: {
          // a deferred guard polling with Guard::TryLock(): a failed attempt must leave the guard not owning
          yaclib::UniqueGuard<M> g{m, std::defer_lock};
          while (!g.TryLock()) {
            w.try_fail.fetch_add(1, kRlx);
            if (g.OwnsLock()) {
              w.failed_try_owns.fetch_add(1, kRlx);
              (void)g.Release();  // do not let the guard release somebody else's lock
              g = yaclib::UniqueGuard<M>{m, std::defer_lock};
            }
            co_await yaclib::On(e1);
            req = Stamp();
          }
          Enter(w, req, id, false);
          VF_HOLD_SECTION();
          Leave(w);
          if (rd.unlock_form == uUnlock) {
            co_await g.Unlock();
          } else if (rd.unlock_form == uUnlockHere) {
            g.UnlockHere();
          }
        } break;
        default: {
          for (;;) {
            auto g = m.TryGuard();
            if (g) {
              Enter(w, req, id, false);
              VF_HOLD_SECTION();
              Leave(w);
              if (rd.unlock_form == uUnlock) {
                co_await g.Unlock();
              } else if (rd.unlock_form == uUnlockHere) {
                g.UnlockHere();
              }
              break;
            }
            w.try_fail.fetch_add(1, kRlx);
            co_await yaclib::On(e1);
            req = Stamp();
          }
        } break;
      }
      Jitter(rd.gap);
    }
    co_return{};
  };

  // Guard+re-Lock counts two grants
  for (auto& p : plan) {
    for (auto& rd : p) {
      if (rd.lock_form == lGuardRelock) {
        ++total;
      }
    }
  }
  {
    std::vector<yaclib::Future<> > fs;
    fs.reserve(static_cast<std::size_t>(k));
    for (int i = 0; i < k; ++i) {
      fs.push_back(body(i));
    }
    yaclib::Wait(fs.begin(), fs.size());
    for (auto& f : fs) {
      auto r = std::move(f).Get();
      ctx.Check(r.State() == yaclib::ResultState::Value, "coroutine-result", "C14",
                "a locking coroutine finished with state %d", (int)r.State());
    }
  }
  pool->Stop();
  pool->Wait();
  pool2->Stop();
  pool2->Wait();
  ctx.SetNontrivial(true);
  ctx.Class(w.try_fail.load(kRlx) != 0 ? "try-failed-some" : "no-try-failure");
  ctx.Observe(static_cast<u64>(w.grants.load(kRlx)));
  ctx.Check(w.max_inside.load(kRlx) <= 1, "mutual-exclusion", "C14", "%d coroutines inside the critical section at once",
            w.max_inside.load(kRlx));
  ctx.Check(w.grants.load(kRlx) == total && w.requests.load(kRlx) == total, "granted-exactly-once", "C14",
            "%ld requests, %ld grants, expected %ld", w.requests.load(kRlx), w.grants.load(kRlx), total);
  ctx.Check(w.overlap2.load(kRlx) == 0 && w.coupling_bad.load(kRlx) == 0, "lock-coupling", "C14",
            "second mutex of the lock-coupling form: %d overlapping holders, %d guards that did not own it after the move assignment",
            w.overlap2.load(kRlx), w.coupling_bad.load(kRlx));
  {
    bool free2 = m2.TryLock();
    ctx.Check(free2, "not-free-at-end", "C14", "the second mutex is still locked although every guard that owned it is gone");
    if (free2) {
      m2.UnlockHere();
    }
  }
  ctx.Check(w.failed_try_owns.load(kRlx) == 0, "failed-try-owns", "C14",
            "%d times a guard owned the lock although its TryLock() had just returned false", w.failed_try_owns.load(kRlx));
  ctx.Check(w.plain == w.grants.load(kRlx), "cs-visibility", "C14,C04",
            "plain counter updated in every critical section is %ld after %ld sections (lost update)", w.plain,
            w.grants.load(kRlx));
  ctx.Check(bad_tag.load(kRlx) == 0, "resumed-on-executor", "C14,C13",
            "%d resumptions after UnlockOn / sticky Unlock happened on the wrong executor", bad_tag.load(kRlx));
  ctx.Check(bad_tag_relock.load(kRlx) == 0, "resumed-on-executor", "C14,C13",
            "%d times a StickyGuard that was locked again from another executor (tag 2) put the coroutine on executor tag %d "
            "after Unlock()", bad_tag_relock.load(kRlx), bad_tag_relock_seen.load(kRlx));
  if (FIFO && n == 1 && !any_relock) {
    // one worker (and no request issued from the second executor): coroutines never interleave, so arrival order is
    // exactly the order of request stamps
    u32 cnt = w.nlog.load(kRlx);
    if (cnt > 64) {
      cnt = 64;
    }
    // sort by grant stamp (log positions are taken inside the section, already in grant order)
    for (u32 i = 1; i < cnt; ++i) {
      ctx.Check(w.log[i].request > w.log[i - 1].request, "fifo-order", "C14",
                "FIFO=true, one worker: coroutine %d (requested t=%llu) was granted before coroutine %d (requested "
                "t=%llu)",
                w.log[i - 1].coro, (unsigned long long)w.log[i - 1].request, w.log[i].coro,
                (unsigned long long)w.log[i].request);
    }
  }
}

// ------------------------------------------------------------------------------------------------
// SharedMutex

enum SLockForm {
  sLock, sLockShared, sGuard, sGuardShared, sTryLock, sTryLockShared, sTryGuard, sTryGuardShared,
  sDeferLock, sDeferLockShared, sDeferTry, sDeferTryShared, sAdopt, sAdoptShared, kSForms
};
const char* const kSLockName[] = {"Lock", "LockShared", "Guard", "GuardShared", "TryLock", "TryLockShared", "TryGuard",
                                  "TryGuardShared", "deferred-guard.Lock", "deferred-shared-guard.Lock",
                                  "deferred-guard.TryLock", "deferred-shared-guard.TryLock", "Lock+adopt-guard",
                                  "LockShared+adopt-guard"};

struct SWorld {
  std::atomic<int> writers{0};
  std::atomic<int> readers{0};
  std::atomic<int> bad_overlap{0};
  std::atomic<long> grants{0};
  std::atomic<long> requests{0};
  std::atomic<long> try_fail{0};
  std::atomic<int> max_readers{0};
  long plain = 0;  // written by writers only, read by readers
  std::atomic<int> torn_read{0};
  std::atomic<int> failed_try_owns{0};
  std::atomic<int> guard_state_bad{0};
};

inline void EnterW(SWorld& w) {
  int wr = w.writers.fetch_add(1, kRlx) + 1;
  if (wr > 1 || w.readers.load(kRlx) != 0) {
    w.bad_overlap.fetch_add(1, kRlx);
  }
  VF_W(w.plain, "C04,C15");
  w.plain = w.plain + 1;
  w.grants.fetch_add(1, kRlx);
}
inline void LeaveW(SWorld& w) {
  if (w.readers.load(kRlx) != 0) {
    w.bad_overlap.fetch_add(1, kRlx);
  }
  w.writers.fetch_sub(1, kRlx);
}
inline void EnterR(SWorld& w) {
  int r = w.readers.fetch_add(1, kRlx) + 1;
  int mx = w.max_readers.load(kRlx);
  while (r > mx && !w.max_readers.compare_exchange_weak(mx, r, kRlx)) {
  }
  if (w.writers.load(kRlx) != 0) {
    w.bad_overlap.fetch_add(1, kRlx);
  }
  VF_R(w.plain, "C04,C15");
  long a = w.plain;  // plain read under the shared lock
  (void)a;
  w.grants.fetch_add(1, kRlx);
}
inline void LeaveR(SWorld& w) {
  if (w.writers.load(kRlx) != 0) {
    w.bad_overlap.fetch_add(1, kRlx);
  }
  w.readers.fetch_sub(1, kRlx);
}

template <bool FIFO, bool ReadersFIFO>
void SharedMutexCase(Ctx& ctx) {
  using M = yaclib::SharedMutex<FIFO, ReadersFIFO>;
  int k = static_cast<int>(ctx.rng.In(2, 6));
  int n = static_cast<int>(ctx.rng.In(1, 3));
  struct SRound {
    int form;
    u32 cs_yields, gap;
    bool dtor;
  };
  std::vector<std::vector<SRound>> plan(static_cast<std::size_t>(k));
  long total = 0;
  u32 writer_bias = ctx.rng.In(1, 3);
  ctx.Note("SharedMutex<FIFO=%d,ReadersFIFO=%d> %d coroutines on %d workers: ", (int)FIFO, (int)ReadersFIFO, k, n);
  for (auto& p : plan) {
    int rounds = static_cast<int>(ctx.rng.In(1, 3));
    for (int r = 0; r < rounds; ++r) {
      SRound rd;
      bool shared = ctx.rng.Below(4) >= writer_bias;
      static const int wforms[] = {sLock, sGuard, sTryLock, sTryGuard, sLock, sGuard, sDeferLock, sDeferTry, sAdopt};
      static const int rforms[] = {sLockShared,    sGuardShared, sTryLockShared,   sTryGuardShared, sLockShared,
                                   sGuardShared, sDeferLockShared, sDeferTryShared, sAdoptShared};
      rd.form = shared ? rforms[ctx.rng.Below(9)] : wforms[ctx.rng.Below(9)];
      rd.cs_yields = ctx.rng.Below(3);
      rd.gap = ctx.rng.Below(3);
      rd.dtor = ctx.rng.Coin();
      p.push_back(rd);
      ++total;
      ctx.Note("%s ", kSLockName[rd.form]);
    }
    ctx.Note("| ");
  }
  SWorld w;
  M m;
  auto pool = yaclib::MakeFairThreadPool(static_cast<std::uint64_t>(n));

  // some coroutines never hop to the pool: they run on the inline executor, i.e. they start on the creating fiber and are
  // later resumed *inside* the unlock call of whoever hands the lock over to them
  std::vector<char> stay_inline(static_cast<std::size_t>(k), 0);
  for (auto& si : stay_inline) {
    si = ctx.rng.Below(3) == 0 ? 1 : 0;
  }
  auto body = [&](int id) -> yaclib::Future<> {
    if (stay_inline[static_cast<std::size_t>(id)] == 0) {
      co_await yaclib::On(*pool);
    }
    for (auto& rd : plan[static_cast<std::size_t>(id)]) {
      w.requests.fetch_add(1, kRlx);
      switch (rd.form) {
        case sLock:
          co_await m.Lock();
          EnterW(w);
          Jitter(rd.cs_yields);
          LeaveW(w);
          m.UnlockHere();
          break;
        case sLockShared:
          co_await m.LockShared();
          EnterR(w);
          Jitter(rd.cs_yields);
          LeaveR(w);
          m.UnlockHereShared();
          break;
        case sGuard: {
          auto g = co_await m.Guard();
          EnterW(w);
          Jitter(rd.cs_yields);
          LeaveW(w);
          if (!rd.dtor) {
            g.UnlockHere();
          }
        } break;
        case sGuardShared: {
          auto g = co_await m.GuardShared();
          EnterR(w);
          Jitter(rd.cs_yields);
          LeaveR(w);
          if (!rd.dtor) {
            g.UnlockHere();
          }
        } break;
        case sTryLock:
          while (!m.TryLock()) {
            w.try_fail.fetch_add(1, kRlx);
            co_await yaclib::On(*pool);
          }
          EnterW(w);
          Jitter(rd.cs_yields);
          LeaveW(w);
          m.UnlockHere();
          break;
        case sTryLockShared:
          while (!m.TryLockShared()) {
            w.try_fail.fetch_add(1, kRlx);
            co_await yaclib::On(*pool);
          }
          EnterR(w);
          Jitter(rd.cs_yields);
          LeaveR(w);
          m.UnlockHereShared();
          break;
        case sDeferLock: {
          yaclib::UniqueGuard<M> g{m, std::defer_lock};
          if (g.OwnsLock() || g.Mutex() != &m) {
            w.guard_state_bad.fetch_add(1, kRlx);
          }
          co_await g.Lock();
          if (!g.OwnsLock()) {
            w.guard_state_bad.fetch_add(1, kRlx);
          }
          EnterW(w);
          Jitter(rd.cs_yields);
          LeaveW(w);
          if (!rd.dtor) {
            g.UnlockHere();
            if (g.OwnsLock()) {
              w.guard_state_bad.fetch_add(1, kRlx);
            }
          }
        } break;
        case sDeferLockShared: {
          yaclib::SharedGuard<M> g{m, std::defer_lock};
          co_await g.Lock();
          if (!g.OwnsLock()) {
            w.guard_state_bad.fetch_add(1, kRlx);
          }
          EnterR(w);
          Jitter(rd.cs_yields);
          LeaveR(w);
          if (!rd.dtor) {
            g.UnlockHere();
          }
        } break;
        case sDeferTry: {
          // a failed Guard::TryLock() must leave the guard not owning (else its destructor releases a foreign lock)
          yaclib::UniqueGuard<M> g{m, std::defer_lock};
          while (!g.TryLock()) {
            w.try_fail.fetch_add(1, kRlx);
            if (g.OwnsLock()) {
              w.failed_try_owns.fetch_add(1, kRlx);
              (void)g.Release();
              g = yaclib::UniqueGuard<M>{m, std::defer_lock};
            }
            co_await yaclib::On(*pool);
          }
          EnterW(w);
          Jitter(rd.cs_yields);
          LeaveW(w);
          if (!rd.dtor) {
            // hand the lock back through Release(): the guard forgets it, the mutex is unlocked by hand
            M* pm = g.Release();
            if (pm != &m || g.OwnsLock()) {
              w.guard_state_bad.fetch_add(1, kRlx);
            }
            m.UnlockHere();
          }
        } break;
        case sDeferTryShared: {
          yaclib::SharedGuard<M> g{m, std::defer_lock};
          while (!g.TryLock()) {
            w.try_fail.fetch_add(1, kRlx);
            if (g.OwnsLock()) {
              w.failed_try_owns.fetch_add(1, kRlx);
              (void)g.Release();
              g = yaclib::SharedGuard<M>{m, std::defer_lock};
            }
            co_await yaclib::On(*pool);
          }
          EnterR(w);
          Jitter(rd.cs_yields);
          LeaveR(w);
          if (!rd.dtor) {
            g.UnlockHere();
          }
        } break;
        case sAdopt: {
          co_await m.Lock();
          yaclib::UniqueGuard<M> g0{m, std::adopt_lock};
          yaclib::UniqueGuard<M> g{std::move(g0)};  // ownership travels with the move; g0's destructor must not unlock
          if (!g.OwnsLock() || g0.OwnsLock()) {
            w.guard_state_bad.fetch_add(1, kRlx);
          }
          EnterW(w);
          Jitter(rd.cs_yields);
          LeaveW(w);
          if (!rd.dtor) {
            g.UnlockHere();
          }
        } break;
        case sAdoptShared: {
          co_await m.LockShared();
          yaclib::SharedGuard<M> g0{m, std::adopt_lock};
          yaclib::SharedGuard<M> g;
          g = std::move(g0);  // move-assignment swaps
          if (!g.OwnsLock() || g0.OwnsLock()) {
            w.guard_state_bad.fetch_add(1, kRlx);
          }
          EnterR(w);
          Jitter(rd.cs_yields);
          LeaveR(w);
          if (!rd.dtor) {
            g.UnlockHere();
          }
        } break;
        case sTryGuard:
          for (;;) {
            auto g = m.TryGuard();
            if (g) {
              EnterW(w);
              Jitter(rd.cs_yields);
              LeaveW(w);
              break;
            }
            w.try_fail.fetch_add(1, kRlx);
            co_await yaclib::On(*pool);
          }
          break;
        default:
          for (;;) {
            auto g = m.TryGuardShared();
            if (g) {
              EnterR(w);
              Jitter(rd.cs_yields);
              LeaveR(w);
              break;
            }
            w.try_fail.fetch_add(1, kRlx);
            co_await yaclib::On(*pool);
          }
          break;
      }
      Jitter(rd.gap);
    }
    co_return{};
  };
  {
    std::vector<yaclib::Future<> > fs;
    fs.reserve(static_cast<std::size_t>(k));
    for (int i = 0; i < k; ++i) {
      fs.push_back(body(i));
    }
    yaclib::Wait(fs.begin(), fs.size());
    for (auto& f : fs) {
      auto r = std::move(f).Get();
      ctx.Check(r.State() == yaclib::ResultState::Value, "coroutine-result", "C15",
                "a locking coroutine finished with state %d", (int)r.State());
    }
  }
  pool->Stop();
  pool->Wait();
  ctx.SetNontrivial(true);
  ctx.Class(w.max_readers.load(kRlx) >= 2 ? "readers-overlapped" : "no-reader-overlap");
  ctx.Observe(static_cast<u64>(w.max_readers.load(kRlx)) * 100 + static_cast<u64>(w.try_fail.load(kRlx) != 0));
  ctx.Check(w.bad_overlap.load(kRlx) == 0, "incompatible-holders", "C15",
            "%d observations of a writer overlapping another holder", w.bad_overlap.load(kRlx));
  ctx.Check(w.grants.load(kRlx) == total, "granted-exactly-once", "C15", "%ld requests, %ld grants, expected %ld",
            w.requests.load(kRlx), w.grants.load(kRlx), total);
  ctx.Check(w.failed_try_owns.load(kRlx) == 0, "failed-try-owns", "C15",
            "%d failed Guard::TryLock() attempts left the guard owning the lock", w.failed_try_owns.load(kRlx));
  ctx.Check(w.guard_state_bad.load(kRlx) == 0, "guard-ownership-flag", "C15",
            "%d observations of a guard whose OwnsLock()/Mutex() disagrees with what it was just asked to do",
            w.guard_state_bad.load(kRlx));
  // everybody released: both modes must be available
  bool wl = m.TryLock();
  ctx.Check(wl, "not-free-at-end", "C15", "TryLock fails although every holder released");
  if (wl) {
    m.UnlockHere();
  }
  bool rl = m.TryLockShared();
  ctx.Check(rl, "not-free-at-end", "C15", "TryLockShared fails although every holder released");
  if (rl) {
    m.UnlockHereShared();
  }
}

}  // namespace

VF_CELL(m00, "mutex/batching=0,fifo=0", "C14,C03,C04,C13", 10) {
  MutexCase<false, false>(ctx);
}
VF_CELL(m01, "mutex/batching=0,fifo=1", "C14,C03,C04,C13", 10) {
  MutexCase<false, true>(ctx);
}
VF_CELL(m10, "mutex/batching=1,fifo=0", "C14,C03,C04,C13", 10) {
  MutexCase<true, false>(ctx);
}
VF_CELL(m11, "mutex/batching=1,fifo=1", "C14,C03,C04,C13", 10) {
  MutexCase<true, true>(ctx);
}
VF_CELL(s00, "shared-mutex/fifo=0,readers-fifo=0", "C15,C03,C04", 10) {
  SharedMutexCase<false, false>(ctx);
}
VF_CELL(s01, "shared-mutex/fifo=0,readers-fifo=1", "C15,C03,C04", 10) {
  SharedMutexCase<false, true>(ctx);
}
VF_CELL(s10, "shared-mutex/fifo=1,readers-fifo=0", "C15,C03,C04", 10) {
  SharedMutexCase<true, false>(ctx);
}
VF_CELL(s11, "shared-mutex/fifo=1,readers-fifo=1", "C15,C03,C04", 10) {
  SharedMutexCase<true, true>(ctx);
}

int main(int argc, char** argv) {
  return vf::Main(argc, argv, "cmutex");
}
