// fam_core — C01 (Promise -> Future hand-off), also feeds C03 (lifecycle) and C04 (visibility, thread mode).
//
// One producer thread fulfils (value / error / exception / drop) while one consumer thread consumes through one of
// the consumer kinds; both start concurrently, so attach-vs-set order and every window in between is decided by the
// schedule.  Oracles: exactly-once counter, digest equality, canary/moved flag of the tracked payload, "continuation
// only after Set began" by logical clock, Ready monotonicity + readability, deadlock detector, tracked-live == 0.
#define VF_NO_NEW_OVERRIDE  // this family brings its own global allocation functions: the same counters + a per-thread failpoint
#include "vf_exec.hpp"

#include <yaclib/async/connect.hpp>
#include <yaclib/async/contract.hpp>
#include <yaclib/async/make.hpp>
#include <yaclib/async/future.hpp>
#include <yaclib/async/promise.hpp>
#include <yaclib/async/shared_contract.hpp>
#include <yaclib/async/split.hpp>
#include <yaclib/async/wait.hpp>
#include <yaclib/async/wait_for.hpp>
#include <yaclib/async/wait_until.hpp>

#include <yaclib_std/chrono>

using namespace vf;
using yaclib::Result;

////////////////////////////////////////////////////////////////////////////////////////////////////
// global allocation functions of this family: as in vf.hpp (counting, malloc based) plus a failpoint — when armed, the
// n-th throwing `operator new` of the arming thread throws std::bad_alloc (used by the `attach-fails-then-retry` cell).
static thread_local long tl_fail_new = -1;

inline void* CoreAlloc(std::size_t n, std::size_t al, bool may_throw) {
  if (may_throw && tl_fail_new >= 0 && tl_fail_new-- == 0) {
    throw std::bad_alloc{};
  }
  if (n == 0) {
    n = 1;
  }
  void* p = nullptr;
  if (al <= alignof(std::max_align_t)) {
    p = std::malloc(n);
  } else if (posix_memalign(&p, al, n) != 0) {
    p = nullptr;
  }
  if (p == nullptr) {
    std::abort();
  }
  vf::g_news.fetch_add(1, vf::kRlx);
  return p;
}
inline void CoreFree(void* p) noexcept {
  if (p != nullptr) {
    vf::g_deletes.fetch_add(1, vf::kRlx);
    std::free(p);
  }
}
void* operator new(std::size_t n) {
  return CoreAlloc(n, 1, true);
}
void* operator new[](std::size_t n) {
  return CoreAlloc(n, 1, true);
}
void* operator new(std::size_t n, const std::nothrow_t&) noexcept {
  return CoreAlloc(n, 1, false);
}
void* operator new[](std::size_t n, const std::nothrow_t&) noexcept {
  return CoreAlloc(n, 1, false);
}
void* operator new(std::size_t n, std::align_val_t a) {
  return CoreAlloc(n, static_cast<std::size_t>(a), true);
}
void* operator new[](std::size_t n, std::align_val_t a) {
  return CoreAlloc(n, static_cast<std::size_t>(a), true);
}
void operator delete(void* p) noexcept {
  CoreFree(p);
}
void operator delete[](void* p) noexcept {
  CoreFree(p);
}
void operator delete(void* p, std::size_t) noexcept {
  CoreFree(p);
}
void operator delete[](void* p, std::size_t) noexcept {
  CoreFree(p);
}
void operator delete(void* p, std::align_val_t) noexcept {
  CoreFree(p);
}
void operator delete[](void* p, std::align_val_t) noexcept {
  CoreFree(p);
}
void operator delete(void* p, std::size_t, std::align_val_t) noexcept {
  CoreFree(p);
}
void operator delete[](void* p, std::size_t, std::align_val_t) noexcept {
  CoreFree(p);
}

namespace {

enum ProducerKind { kVal = 0, kErr = 1, kExc = 2, kDrop = 3 };
const char* const kProducerName[] = {"set-value", "set-error", "set-exception", "drop-promise"};

struct Shared {
  int side = 0;  // plain, written by the producer thread right before fulfilling
  u64 set_call = 0;
  u64 set_ret = 0;
};

struct Obs {
  std::atomic<int> calls{0};
  int state = -9;
  int code = 0;
  bool fresh = true;
  u64 at = 0;
  int side = -1;
  int tag = -1;
};

template <typename T>
int ValueCode(const T& v, bool& fresh) {
  if constexpr (std::is_same_v<T, Tracked>) {
    fresh = v.Fresh();
    return v.v;
  } else if constexpr (std::is_same_v<T, MoveOnly>) {
    fresh = v.t.Fresh();
    return v.t.v;
  } else {
    fresh = true;
    return 0;
  }
}

template <typename V, typename R>
void Digest(Obs& o, const R& r, const Shared& sh) {
  o.at = Stamp();
  VF_R(sh.side, "C04,C01");
  o.side = sh.side;  // plain read: ordered after the producer's write only through the library
  o.tag = CurTag();
  o.state = static_cast<int>(r.State());
  if (o.state == 0) {
    o.code = ValueCode(r.Value(), o.fresh);
  } else if (o.state == 1) {
    try {
      std::rethrow_exception(r.Exception());
    } catch (const MyException& e) {
      o.code = e.code;
    } catch (...) {
      o.code = -777;
    }
  } else if (o.state == 2) {
    o.code = r.Error().code;
  }
  o.calls.fetch_add(1, kRlx);
}

inline void Jitter(u32 n) {
#if VF_FIBER
  for (u32 i = 0; i < n; ++i) {
    yaclib_std::this_thread::yield();
  }
#else
  for (volatile u32 i = 0; i < n * 40; ++i) {
  }
#endif
}

template <typename V>
void Produce(yaclib::Promise<V, MyError>&& p, int kind, int code, Shared& sh) {
  VF_W(sh.side, "C04,C01");
  sh.side = code;
  sh.set_call = Stamp();
  switch (kind) {
    case kVal:
      if constexpr (std::is_void_v<V>) {
        std::move(p).Set();
      } else {
        std::move(p).Set(V{code});
      }
      break;
    case kErr:
      std::move(p).Set(MyError{code});
      break;
    case kExc:
      std::move(p).Set(std::make_exception_ptr(MyException{code}));
      break;
    default: {
      auto q = std::move(p);
    } break;
  }
  sh.set_ret = Stamp();
}

struct Expect {
  int state;
  int code;
};
template <typename V>
Expect Expected(int kind, int code) {
  switch (kind) {
    case kVal:
      return {0, std::is_void_v<V> ? 0 : code};
    case kErr:
      return {2, code};
    case kExc:
      return {1, code};
    default:
      return {2, -1};
  }
}

void CheckObs(Ctx& ctx, const Obs& o, Expect e, const Shared& sh, int want_calls, const char* what,
              const char* props = "C01") {
  int calls = o.calls.load(kRlx);
  ctx.Check(calls == want_calls, "exactly-once", props, "%s observed %d times, expected %d", what, calls, want_calls);
  if (calls >= 1 && want_calls >= 1) {
    ctx.Check(o.state == e.state && o.code == e.code, "result-equal", props,
              "%s saw state=%d code=%d, producer set state=%d code=%d", what, o.state, o.code, e.state, e.code);
    ctx.Check(o.fresh, "payload-intact", props, "%s read a torn or moved-from payload", what);
    ctx.Check(o.at > sh.set_call, "not-before-set", props, "%s ran at t=%llu before the producer's Set began (t=%llu)",
              what, (unsigned long long)o.at, (unsigned long long)sh.set_call);
    ctx.Check(o.side == sh.side, "visibility", "C01,C04", "%s read side=%d, producer wrote %d before fulfilling", what,
              o.side, sh.side);
  }
}

enum ConsumerKind {
  cThenInline,
  cThenExec,
  cThenOn,
  cDetachPlain,
  cDetachInline,
  cDetachExec,
  cGetMove,
  cGetConst,
  cWaitTouch,
  cWaitFor,
  cWaitUntil,
  cConnectUnique,
  cConnectShared,
  cSplit,
  cDrop,
};

// executor arrangement for the *Exec kinds
struct ExecRig {
  int kind = 0;  // 0 inline, 1 manual, 2 pool(1)
  yaclib::IExecutorPtr manual;
  yaclib::IntrusivePtr<yaclib::FairThreadPool> pool;
  TagExec* tag = nullptr;
  alignas(TagExec) unsigned char storage[sizeof(TagExec)];

  explicit ExecRig(int k) : kind{k} {
    if (kind == 1) {
      manual = yaclib::MakeManual();
      tag = new (storage) TagExec{7, *manual};
    } else if (kind == 2) {
      pool = yaclib::MakeFairThreadPool(1);
      tag = new (storage) TagExec{7, *pool};
    } else {
      tag = new (storage) TagExec{7, yaclib::MakeInline()};
    }
  }
  void Quiesce() {
    if (kind == 1) {
      while (static_cast<yaclib::ManualExecutor&>(*manual).Drain() != 0) {
      }
    } else if (kind == 2) {
      pool->Stop();
      pool->Wait();
    }
  }
  ~ExecRig() {
    tag->~TagExec();
  }
};

template <typename V>
void CoreCase(Ctx& ctx, int ck) {
  using F = yaclib::Future<V, MyError>;
  using R = Result<V, MyError>;
  ResetTags();
  int pk = static_cast<int>(ctx.rng.Below(4));
  int code = static_cast<int>(ctx.rng.In(1, 1000000));
  u32 pj = ctx.rng.Below(4), cj = ctx.rng.Below(4);
  int ek = static_cast<int>(ctx.rng.Below(3));
  u32 dur = ctx.rng.Below(4) == 0 ? 0 : ctx.rng.In(1, 400);
  Expect exp = Expected<V>(pk, code);
  ctx.Class(kProducerName[pk]);
  ctx.Note("producer=%s code=%d pre-yields p=%u c=%u exec=%d", kProducerName[pk], code, pj, cj, ek);

  Shared sh;
  Obs obs;
  Obs obs2;
  bool has_cb = false;
  int want_tag = -2;
  bool timed_true = false, timed_false = false;
  u64 cons_call = 0, cons_ret = 0;
  ExecRig rig{ek};

  {
    auto [f0, p0] = yaclib::MakeContract<V, MyError>();
    F f = std::move(f0);
    yaclib::Future<void, MyError> tail;      // result of Then*, consumed by the root at the end
    yaclib::FutureOn<void, MyError> tail_on;

    yaclib_std::thread producer([&, p = std::move(p0)]() mutable {
      Jitter(pj);
      Produce<V>(std::move(p), pk, code, sh);
    });
    yaclib_std::thread consumer([&] {
      Jitter(cj);
      cons_call = Stamp();
      auto cb = [&obs, &sh](R&& r) {
        Digest<V>(obs, r, sh);
      };
      switch (ck) {
        case cThenInline:
          has_cb = true;
          tail = std::move(f).ThenInline(cb);
          break;
        case cThenExec:
          has_cb = true;
          want_tag = 7;
          tail_on = std::move(f).Then(*rig.tag, cb);
          break;
        case cDetachPlain:
          std::move(f).Detach();
          break;
        case cDetachInline:
          has_cb = true;
          std::move(f).DetachInline(cb);
          break;
        case cDetachExec:
          has_cb = true;
          want_tag = 7;
          std::move(f).Detach(*rig.tag, cb);
          break;
        case cGetMove: {
          R r = std::move(f).Get();
          Digest<V>(obs, r, sh);
        } break;
        case cGetConst: {
          bool seen = false;
          int after = 0;
          for (int spins = 0; after < 2; ++spins) {
            bool ready = f.Ready();
            if (seen && !ready) {
              ctx.Fail("ready-monotonic", "C01", "Ready() went back to false");
              break;
            }
            const R* g = std::as_const(f).Get();
            if (ready) {
              seen = true;
              ++after;
              if (g == nullptr) {
                ctx.Fail("ready-readable", "C01", "Ready()==true but Get() const& returned nullptr");
                break;
              }
            }
            if (g != nullptr) {
              Obs tmp;
              Digest<V>(tmp, *g, sh);
              if (!(tmp.state == exp.state && tmp.code == exp.code && tmp.fresh)) {
                ctx.Fail("ready-readable", "C01", "Get() const& returned state=%d code=%d fresh=%d, expected %d/%d",
                         tmp.state, tmp.code, (int)tmp.fresh, exp.state, exp.code);
                break;
              }
            }
            Jitter(1);
          }
          R r = std::move(f).Get();
          Digest<V>(obs, r, sh);
        } break;
        case cWaitTouch: {
          yaclib::Wait(f);
          if (!f.Ready()) {
            ctx.Fail("wait-ready", "C01,C11", "Wait returned but Ready()==false");
          }
          Digest<V>(obs2, std::as_const(f).Touch(), sh);
          R r = std::move(f).Touch();
          Digest<V>(obs, r, sh);
        } break;
        case cWaitFor:
        case cWaitUntil: {
          bool ok;
          if (ck == cWaitFor) {
            ok = yaclib::WaitFor(std::chrono::nanoseconds{dur}, f);
          } else {
            ok = yaclib::WaitUntil(yaclib_std::chrono::steady_clock::now() + std::chrono::nanoseconds{dur}, f);
          }
          (ok ? timed_true : timed_false) = true;
          if (ok) {
            if (!f.Ready()) {
              ctx.Fail("wait-ready", "C01,C11", "timed wait returned true but Ready()==false");
            } else {
              Digest<V>(obs2, std::as_const(f).Touch(), sh);
            }
          }
          R r = std::move(f).Get();
          Digest<V>(obs, r, sh);
        } break;
        case cConnectUnique: {
          auto [f2, p2] = yaclib::MakeContract<V, MyError>();
          yaclib::Connect(std::move(f), std::move(p2));
          has_cb = true;
          tail = std::move(f2).ThenInline(cb);
        } break;
        case cConnectShared:
          if constexpr (std::is_copy_constructible_v<R>) {
            auto [sf, sp] = yaclib::MakeSharedContract<V, MyError>();
            yaclib::Connect(std::move(f), std::move(sp));
            const R& r = std::as_const(sf).Get();
            Digest<V>(obs, r, sh);
          }
          break;
        case cSplit:
          if constexpr (std::is_copy_constructible_v<R>) {
            auto sf = yaclib::Split(std::move(f));
            has_cb = true;
            sf.SubscribeInline([&obs, &sh](const R& r) {
              Digest<V>(obs, r, sh);
            });
            const R& r = std::as_const(sf).Get();
            Digest<V>(obs2, r, sh);
          }
          break;
        case cDrop: {
          F dead = std::move(f);
        } break;
        default:
          break;
      }
      cons_ret = Stamp();
    });
    producer.join();
    consumer.join();
    rig.Quiesce();
    if (cons_call < sh.set_ret && sh.set_call < cons_ret) {
      ctx.SetNontrivial(true);  // the two calls overlapped in logical time
      ctx.Class("overlapped");
    } else {
      ctx.SetNontrivial(false);
      ctx.Class(cons_ret <= sh.set_call ? "consume-first" : "set-first");
    }
    if (tail.Valid()) {
      ctx.Check(tail.Ready(), "tail-ready", "C01", "future returned by Then* is not Ready at quiescence");
      if (tail.Ready()) {
        auto r = std::move(tail).Get();
        ctx.Check(r.State() == yaclib::ResultState::Value, "tail-ready", "C01", "void continuation result not a value");
      }
    }
    if (tail_on.Valid()) {
      ctx.Check(tail_on.Ready(), "tail-ready", "C01", "future returned by Then(e) is not Ready at quiescence");
      if (tail_on.Ready()) {
        (void)std::move(tail_on).Get();
      }
    }
  }
  ctx.Observe(static_cast<u64>(obs.calls.load(kRlx)) * 31 + (timed_true ? 7 : 0) + (ctx.nontrivial ? 3 : 0));
  if (timed_true) {
    ctx.Class("timed-true");
  }
  if (timed_false) {
    ctx.Class("timed-false");
  }

  switch (ck) {
    case cDetachPlain:
    case cDrop:
      CheckObs(ctx, obs, exp, sh, 0, "continuation");
      break;
    case cWaitTouch:
      CheckObs(ctx, obs2, exp, sh, 1, "Touch() const& after Wait");
      CheckObs(ctx, obs, exp, sh, 1, "Touch()&& after Wait");
      break;
    case cWaitFor:
    case cWaitUntil:
      if (timed_true) {
        CheckObs(ctx, obs2, exp, sh, 1, "Touch() after timed wait == true");
      }
      CheckObs(ctx, obs, exp, sh, 1, "Get()&& after timed wait");
      break;
    case cSplit:
    case cConnectShared:
      if constexpr (std::is_copy_constructible_v<R>) {
        CheckObs(ctx, obs, exp, sh, 1, "observer");
        if (ck == cSplit) {
          CheckObs(ctx, obs2, exp, sh, 1, "Get() const& on split");
        }
      }
      break;
    default:
      CheckObs(ctx, obs, exp, sh, 1, has_cb ? "continuation" : "Get");
      break;
  }
  if (want_tag != -2 && obs.calls.load(kRlx) == 1) {
    ctx.Check(obs.tag == want_tag, "ran-on-executor", "C01,C05", "continuation ran with executor tag %d, expected %d",
              obs.tag, want_tag);
    ctx.Check(rig.tag->submits.load(kRlx) == 1, "one-submit", "C01,C05", "Then(e)/Detach(e) submitted %ld jobs to e",
              rig.tag->submits.load(kRlx));
  }
}

// ------------------------------------------------------------------------------------------------
// A step that returns a Future / SharedFuture which another thread fulfils while the step is being flattened: the
// continuation behind the step must run exactly once with the inner result (C02 "a returned Future, SharedFuture ... is
// flattened so the step completes with the inner result", here under every interleaving with the inner producer).
void FlattenCase(Ctx& ctx, bool inner_shared) {
  using R = Result<Tracked, MyError>;
  ResetTags();
  int pk = static_cast<int>(ctx.rng.Below(4));
  int code = static_cast<int>(ctx.rng.In(1, 1000000));
  u32 pj = ctx.rng.Below(5), cj = ctx.rng.Below(5);
  int ek = static_cast<int>(ctx.rng.Below(3));
  int attach = static_cast<int>(ctx.rng.Below(2));  // 0 ThenInline, 1 Then(e)
  bool two_steps = ctx.rng.Coin();                  // a second flattening step on another copy (shared only)
  Expect exp = Expected<Tracked>(pk, code);
  ctx.Class(kProducerName[pk]);
  ctx.Note("step returning a pending %s, attached with %s, inner producer=%s code=%d pre-yields p=%u c=%u exec=%d ",
           inner_shared ? "SharedFuture" : "Future", attach == 0 ? "ThenInline" : "Then(e)", kProducerName[pk], code, pj, cj, ek);
  Shared sh;
  Obs obs, obs_b;
  ExecRig rig{ek};
  bool kept_ok = true;
  {
    yaclib::Future<Tracked, MyError> fi;
    yaclib::Promise<Tracked, MyError> pi;
    yaclib::SharedFuture<Tracked, MyError> sfi, kept;
    yaclib::SharedPromise<Tracked, MyError> spi;
    if (inner_shared) {
      auto [f, p] = yaclib::MakeSharedContract<Tracked, MyError>();
      sfi = std::move(f);
      spi = std::move(p);
      kept = sfi;
    } else {
      auto [f, p] = yaclib::MakeContract<Tracked, MyError>();
      fi = std::move(f);
      pi = std::move(p);
    }
    yaclib::Future<void, MyError> tail, tail_b;
    yaclib_std::thread producer([&] {
      Jitter(pj);
      if (!inner_shared) {
        Produce<Tracked>(std::move(pi), pk, code, sh);
        return;
      }
      VF_W(sh.side, "C04,C01");
      sh.side = code;
      sh.set_call = Stamp();
      if (pk == kVal) {
        std::move(spi).Set(Tracked{code});
      } else if (pk == kErr) {
        std::move(spi).Set(MyError{code});
      } else if (pk == kExc) {
        std::move(spi).Set(std::make_exception_ptr(MyException{code}));
      } else {
        auto q = std::move(spi);
      }
      sh.set_ret = Stamp();
    });
    yaclib_std::thread consumer([&] {
      Jitter(cj);
      auto build = [&](Obs& o, auto&& inner) {
        auto step = [in = std::forward<decltype(inner)>(inner)]() mutable {
          return std::move(in);
        };
        auto done = [&o, &sh](R&& r) {
          Digest<Tracked>(o, r, sh);
        };
        if (attach == 0) {
          return yaclib::MakeFuture<void, MyError>().ThenInline(std::move(step)).ThenInline(done);
        }
        return yaclib::MakeFuture<void, MyError>().Then(*rig.tag, std::move(step)).ThenInline(done).On(nullptr);
      };
      if (inner_shared) {
        tail = build(obs, yaclib::SharedFuture<Tracked, MyError>{sfi});
        if (two_steps) {
          tail_b = build(obs_b, std::move(sfi));
        }
        sfi = {};
      } else {
        tail = build(obs, std::move(fi));
      }
    });
    producer.join();
    consumer.join();
    if (ek == 1) {
      while (static_cast<yaclib::ManualExecutor&>(*rig.manual).Drain() != 0) {
      }
    }
    if (tail.Valid()) {
      yaclib::Wait(tail);
    }
    if (tail_b.Valid()) {
      yaclib::Wait(tail_b);
    }
    tail = {};
    tail_b = {};
    if (inner_shared) {
      // the handle kept outside still holds exactly what was set, however often the state was flattened
      const R& r = std::as_const(kept).Get();
      Obs k;
      Digest<Tracked>(k, r, sh);
      kept_ok = k.state == exp.state && k.code == exp.code && k.fresh;
      kept = {};
    }
    rig.Quiesce();
  }
  bool overlapped = true;
  ctx.SetNontrivial(overlapped);
  CheckObs(ctx, obs, exp, sh, 1, "continuation behind the flattening step", "C02,C01");
  if (inner_shared && two_steps) {
    CheckObs(ctx, obs_b, exp, sh, 1, "continuation behind the second flattening step", "C02,C01");
  }
  ctx.Check(kept_ok, "shared-state-intact", "C02,C06",
            "the SharedFuture returned by the step no longer holds the Result that was set (moved-from or changed)");
}

// ------------------------------------------------------------------------------------------------
// The continuation destroys the object that owns the Promise (a session object completing itself and going away).
// Set() must have let go of the shared state before it runs continuations: the Promise destroyed from inside its own
// Set() - or by the consumer thread while the producer is still inside Set() - must not complete the state again.
void OwnerCase(Ctx& ctx) {
  using R = Result<Tracked, MyError>;
  struct Owner {
    yaclib::Promise<Tracked, MyError> p;
    Tracked guard{77};
  };
  ResetTags();
  int pk = static_cast<int>(ctx.rng.Below(3));
  int code = static_cast<int>(ctx.rng.In(1, 1000000));
  u32 pj = ctx.rng.Below(5), cj = ctx.rng.Below(5);
  int attach = static_cast<int>(ctx.rng.Below(2));  // 0 DetachInline, 1 ThenInline
  Expect exp = Expected<Tracked>(pk, code);
  ctx.Class(kProducerName[pk]);
  ctx.Note("the %s continuation deletes the owner of the Promise; producer=%s code=%d pre-yields p=%u c=%u ",
           attach == 0 ? "DetachInline" : "ThenInline", kProducerName[pk], code, pj, cj);
  Shared sh;
  Obs obs;
  {
    auto [f0, p0] = yaclib::MakeContract<Tracked, MyError>();
    auto f = std::move(f0);
    auto* owner = new Owner{std::move(p0)};
    yaclib::Future<void, MyError> tail;
    yaclib_std::thread producer([&] {
      Jitter(pj);
      VF_W(sh.side, "C04,C01");
      sh.side = code;
      sh.set_call = Stamp();
      // `owner` may be gone as soon as the result is published: nothing of it is used after this call
      if (pk == kVal) {
        std::move(owner->p).Set(Tracked{code});
      } else if (pk == kErr) {
        std::move(owner->p).Set(MyError{code});
      } else {
        std::move(owner->p).Set(std::make_exception_ptr(MyException{code}));
      }
      sh.set_ret = Stamp();
    });
    yaclib_std::thread consumer([&] {
      Jitter(cj);
      auto cb = [&obs, &sh, owner](R&& r) {
        Digest<Tracked>(obs, r, sh);
        delete owner;
      };
      if (attach == 0) {
        std::move(f).DetachInline(cb);
      } else {
        tail = std::move(f).ThenInline(cb);
      }
    });
    producer.join();
    consumer.join();
    if (tail.Valid()) {
      yaclib::Wait(tail);
    }
  }
  ctx.SetNontrivial(true);
  CheckObs(ctx, obs, exp, sh, 1, "continuation that destroys the Promise's owner");
}

// ------------------------------------------------------------------------------------------------
// Promise::Set(args...) whose in-place construction of the value throws: nothing has been delivered, so the Promise
// still owns the state - a retry delivers the value, dropping the Promise delivers StopError, each exactly once.
struct Bomb {
  Tracked t;
  Bomb(int code, bool explode) : t{code} {
    if (explode) {
      throw MyException{code};
    }
  }
};

// round 8: the allocation of the continuation fails (std::bad_alloc out of ThenInline / Then(e) / DetachInline). The attach
// did not happen, so the Future must still own the state: a second attach (or Get) observes the producer's completion
// exactly once, however Set / drop of the Promise interleaves with the failed and the repeated attach.
void AttachFailsCase(Ctx& ctx) {
  using R = Result<Bomb, MyError>;
  ResetTags();
  int code = static_cast<int>(ctx.rng.In(1, 1000000));
  u32 pj = ctx.rng.Below(5), cj = ctx.rng.Below(5);
  int prod = static_cast<int>(ctx.rng.Below(2));    // 0 Set value, 1 drop the Promise
  int attach = static_cast<int>(ctx.rng.Below(3));  // failing attach: 0 ThenInline, 1 DetachInline, 2 Then(e)
  int retry = static_cast<int>(ctx.rng.Below(3));   // afterwards: 0 ThenInline, 1 DetachInline, 2 Get
  ctx.Note("%s throws std::bad_alloc for its continuation, then the consumer uses %s; producer %s; pre-yields p=%u c=%u ",
           attach == 0 ? "ThenInline" : attach == 1 ? "DetachInline" : "Then(e)", retry == 0 ? "ThenInline" : retry == 1 ? "DetachInline" : "Get",
           prod == 0 ? "sets a value" : "drops the Promise", pj, cj);
  ctx.Class(prod == 0 ? "set" : "drop");
  Shared sh;
  Obs obs;
  bool threw = false, valid_after_throw = true;
  std::atomic<int> failed_ran{0};
  auto pool = yaclib::MakeFairThreadPool(1);
  {
    auto [f0, p0] = yaclib::MakeContract<Bomb, MyError>();
    auto f = std::move(f0);
    yaclib::Future<void, MyError> tail;
    auto digest = [&obs, &sh](const R& r) {
      obs.at = Stamp();
      VF_R(sh.side, "C04,C01");
      obs.side = sh.side;
      obs.state = static_cast<int>(r.State());
      if (obs.state == 0) {
        obs.code = r.Value().t.v;
        obs.fresh = r.Value().t.Fresh();
      } else if (obs.state == 2) {
        obs.code = r.Error().code;
      }
      obs.calls.fetch_add(1, kRlx);
    };
    yaclib_std::thread producer([&, p = std::move(p0)]() mutable {
      Jitter(pj);
      VF_W(sh.side, "C04,C01");
      sh.side = code;
      sh.set_call = Stamp();
      if (prod == 0) {
        std::move(p).Set(code, false);
      } else {
        auto dead = std::move(p);
      }
      sh.set_ret = Stamp();
    });
    yaclib_std::thread consumer([&] {
      Jitter(cj);
      auto never = [&failed_ran](R&&) {
        failed_ran.fetch_add(1, kRlx);
      };
      tl_fail_new = 0;  // the next throwing operator new of this thread fails: the continuation's core
      try {
        if (attach == 0) {
          auto t = std::move(f).ThenInline(never);
        } else if (attach == 1) {
          std::move(f).DetachInline(never);
        } else {
          auto t = std::move(f).Then(*pool, never);
        }
      } catch (const std::bad_alloc&) {
        threw = true;
      }
      tl_fail_new = -1;
      valid_after_throw = f.Valid();
      if (!threw || !f.Valid()) {
        return;
      }
      Jitter(1);
      if (retry == 0) {
        tail = std::move(f).ThenInline([digest](R&& r) {
          digest(r);
        });
      } else if (retry == 1) {
        std::move(f).DetachInline([digest](R&& r) {
          digest(r);
        });
      } else {
        auto r = std::move(f).Get();
        digest(r);
      }
    });
    producer.join();
    consumer.join();
    if (tail.Valid()) {
      yaclib::Wait(tail);
    }
  }
  pool->Stop();
  pool->Wait();
  ctx.SetNontrivial(true);
  if (!threw) {
    // the library found a way to attach without allocating: nothing to decide here (never the case on the pinned tree)
    ctx.Class("no-allocation-in-attach");
    return;
  }
  ctx.Check(failed_ran.load(kRlx) == 0, "failed-attach-runs-nothing", "C01", "the continuation whose attach threw was invoked %d times",
            failed_ran.load(kRlx));
  ctx.Check(valid_after_throw, "future-valid-after-failed-attach", "C01",
            "the Future is no longer Valid() after an attach that threw std::bad_alloc: the state is orphaned and the completion is lost");
  if (!valid_after_throw) {
    return;
  }
  Expect exp = prod == 0 ? Expect{0, code} : Expect{2, -1};
  CheckObs(ctx, obs, exp, sh, 1, "consumer that re-attached after a failed attach");
}

void ThrowingSetCase(Ctx& ctx) {
  using R = Result<Bomb, MyError>;
  ResetTags();
  int code = static_cast<int>(ctx.rng.In(1, 1000000));
  u32 pj = ctx.rng.Below(5), cj = ctx.rng.Below(5);
  int after = static_cast<int>(ctx.rng.Below(2));   // 0 retry with a value that can be constructed, 1 drop the Promise
  int attach = static_cast<int>(ctx.rng.Below(3));  // 0 ThenInline, 1 DetachInline, 2 Get
  ctx.Note("Set(args) throws while constructing the value, then the producer %s; consumer %s; pre-yields p=%u c=%u ",
           after == 0 ? "retries" : "drops the Promise", attach == 0 ? "ThenInline" : attach == 1 ? "DetachInline" : "Get", pj, cj);
  ctx.Class(after == 0 ? "retry" : "drop");
  Shared sh;
  Obs obs;
  bool threw = false, valid_after_throw = true;
  {
    auto [f0, p0] = yaclib::MakeContract<Bomb, MyError>();
    auto f = std::move(f0);
    yaclib::Future<void, MyError> tail;
    auto digest = [&obs, &sh](const R& r) {
      obs.at = Stamp();
      VF_R(sh.side, "C04,C01");
      obs.side = sh.side;
      obs.state = static_cast<int>(r.State());
      if (obs.state == 0) {
        obs.code = r.Value().t.v;
        obs.fresh = r.Value().t.Fresh();
      } else if (obs.state == 2) {
        obs.code = r.Error().code;
      }
      obs.calls.fetch_add(1, kRlx);
    };
    yaclib_std::thread producer([&, p = std::move(p0)]() mutable {
      Jitter(pj);
      VF_W(sh.side, "C04,C01");
      sh.side = code;
      sh.set_call = Stamp();
      try {
        std::move(p).Set(code, true);
      } catch (const MyException&) {
        threw = true;
      }
      valid_after_throw = p.Valid();
      Jitter(1);
      if (after == 0 && p.Valid()) {
        std::move(p).Set(code, false);
      } else {
        auto dead = std::move(p);
      }
      sh.set_ret = Stamp();
    });
    yaclib_std::thread consumer([&] {
      Jitter(cj);
      if (attach == 0) {
        tail = std::move(f).ThenInline([digest](R&& r) {
          digest(r);
        });
      } else if (attach == 1) {
        std::move(f).DetachInline([digest](R&& r) {
          digest(r);
        });
      } else {
        auto r = std::move(f).Get();
        digest(r);
      }
    });
    producer.join();
    consumer.join();
    if (tail.Valid()) {
      yaclib::Wait(tail);
    }
  }
  ctx.SetNontrivial(true);
  ctx.Check(threw, "set-rethrows", "C01", "Set(args) did not let the exception of the value's constructor escape");
  ctx.Check(valid_after_throw, "promise-valid-after-throwing-set", "C01",
            "the Promise is no longer Valid() after a Set whose value construction threw: the state is orphaned");
  Expect exp = after == 0 ? Expect{0, code} : Expect{2, -1};
  CheckObs(ctx, obs, exp, sh, 1, "consumer of a Promise whose first Set threw");
}

// The same through SharedPromise::Set(args...): the SharedPromise keeps owning the state after the throw, every observer
// (registered before or after the failed call) fires exactly once with the retried value or with StopError.
void SharedThrowingSetCase(Ctx& ctx) {
  using R = Result<Bomb, MyError>;
  ResetTags();
  int code = static_cast<int>(ctx.rng.In(1, 1000000));
  u32 pj = ctx.rng.Below(5), cj = ctx.rng.Below(5);
  int after = static_cast<int>(ctx.rng.Below(2));  // 0 retry, 1 drop the SharedPromise
  int nobs = 1 + static_cast<int>(ctx.rng.Below(3));
  ctx.Note("SharedPromise::Set(args) throws while constructing the value, then the producer %s; %d observers; pre-yields p=%u c=%u ",
           after == 0 ? "retries" : "drops the SharedPromise", nobs, pj, cj);
  ctx.Class(after == 0 ? "shared-retry" : "shared-drop");
  Shared sh;
  Obs obs[3];
  bool threw = false, valid_after_throw = true;
  {
    auto [sf0, sp0] = yaclib::MakeSharedContract<Bomb, MyError>();
    auto sf = std::move(sf0);
    yaclib_std::thread producer([&, p = std::move(sp0)]() mutable {
      Jitter(pj);
      VF_W(sh.side, "C04,C06");
      sh.side = code;
      sh.set_call = Stamp();
      try {
        std::move(p).Set(code, true);
      } catch (const MyException&) {
        threw = true;
      }
      valid_after_throw = p.Valid();
      Jitter(1);
      if (after == 0 && p.Valid()) {
        std::move(p).Set(code, false);
      } else {
        auto dead = std::move(p);
      }
      sh.set_ret = Stamp();
    });
    yaclib_std::thread consumer([&] {
      for (int i = 0; i < nobs; ++i) {
        Jitter(cj);
        Obs* o = &obs[i];
        sf.SubscribeInline([o, &sh](const R& r) {
          o->at = Stamp();
          VF_R(sh.side, "C04,C06");
          o->side = sh.side;
          o->state = static_cast<int>(r.State());
          if (o->state == 0) {
            o->code = r.Value().t.v;
            o->fresh = r.Value().t.Fresh();
          } else if (o->state == 2) {
            o->code = r.Error().code;
          }
          o->calls.fetch_add(1, kRlx);
        });
      }
    });
    producer.join();
    consumer.join();
  }
  ctx.SetNontrivial(true);
  ctx.Check(threw, "set-rethrows", "C06", "SharedPromise::Set(args) did not let the exception of the value's constructor escape");
  ctx.Check(valid_after_throw, "promise-valid-after-throwing-set", "C06",
            "the SharedPromise is no longer Valid() after a Set whose value construction threw: the state is orphaned");
  Expect exp = after == 0 ? Expect{0, code} : Expect{2, -1};
  for (int i = 0; i < nobs; ++i) {
    CheckObs(ctx, obs[i], exp, sh, 1, "observer of a SharedPromise whose first Set threw", "C06");
  }
}

// A pending Promise overwritten by move assignment is a dropped Promise: its Future gets StopError exactly once (at the
// latest when the moved-from object dies), and the Promise that now owns the other state still delivers to that one.
void OverwriteCase(Ctx& ctx) {
  using R = Result<Tracked, MyError>;
  ResetTags();
  int code = static_cast<int>(ctx.rng.In(1, 1000000));
  u32 pj = ctx.rng.Below(5), cj = ctx.rng.Below(5);
  int attach = static_cast<int>(ctx.rng.Below(2));  // 0 ThenInline, 1 DetachInline
  int form = static_cast<int>(ctx.rng.Below(2));    // 0 p1 = std::move(p2), 1 slot in a vector re-armed
  ctx.Note("pending Promise overwritten by move assignment (%s); consumers %s; pre-yields p=%u c=%u ",
           form == 0 ? "two locals" : "vector slot", attach == 0 ? "ThenInline" : "DetachInline", pj, cj);
  ctx.Class(form == 0 ? "overwrite-local" : "overwrite-slot");
  Shared sh1, sh2;
  Obs obs1, obs2;
  {
    auto [fa, pa] = yaclib::MakeContract<Tracked, MyError>();
    auto [fb, pb] = yaclib::MakeContract<Tracked, MyError>();
    auto f1 = std::move(fa);
    auto f2 = std::move(fb);
    yaclib::Future<void, MyError> t1, t2;
    yaclib_std::thread producer([&, p1 = std::move(pa), p2 = std::move(pb)]() mutable {
      Jitter(pj);
      VF_W(sh1.side, "C04,C01");
      sh1.side = -1;
      sh1.set_call = Stamp();
      if (form == 0) {
        p1 = std::move(p2);
        {
          auto dead = std::move(p2);  // whatever the moved-from object still owns is dropped here
        }
        sh1.set_ret = Stamp();
        Jitter(1);
        VF_W(sh2.side, "C04,C01");
        sh2.side = code;
        sh2.set_call = Stamp();
        std::move(p1).Set(Tracked{code});
      } else {
        std::vector<yaclib::Promise<Tracked, MyError>> slots;
        slots.push_back(std::move(p1));
        slots[0] = std::move(p2);
        {
          auto dead = std::move(p2);
        }
        sh1.set_ret = Stamp();
        Jitter(1);
        VF_W(sh2.side, "C04,C01");
        sh2.side = code;
        sh2.set_call = Stamp();
        std::move(slots[0]).Set(Tracked{code});
      }
      sh2.set_ret = Stamp();
    });
    yaclib_std::thread consumer([&] {
      Jitter(cj);
      auto cb1 = [&obs1, &sh1](R&& r) {
        Digest<Tracked>(obs1, r, sh1);
      };
      auto cb2 = [&obs2, &sh2](R&& r) {
        Digest<Tracked>(obs2, r, sh2);
      };
      if (attach == 0) {
        t1 = std::move(f1).ThenInline(cb1);
        t2 = std::move(f2).ThenInline(cb2);
      } else {
        std::move(f1).DetachInline(cb1);
        std::move(f2).DetachInline(cb2);
      }
    });
    producer.join();
    consumer.join();
  }
  ctx.SetNontrivial(true);
  CheckObs(ctx, obs1, Expect{2, -1}, sh1, 1, "consumer of a pending Promise that was overwritten by move assignment");
  CheckObs(ctx, obs2, Expect{0, code}, sh2, 1, "consumer of the Promise that was moved into the overwritten one");
}

void Dispatch(Ctx& ctx, int ck, bool allow_moveonly, bool allow_void) {
  u32 n = 1 + (allow_moveonly ? 1 : 0) + (allow_void ? 1 : 0);
  u32 k = ctx.rng.Below(n);
  if (k == 0) {
    ctx.Note("V=Tracked ");
    CoreCase<Tracked>(ctx, ck);
  } else if (k == 1 && allow_moveonly) {
    ctx.Note("V=MoveOnly ");
    CoreCase<MoveOnly>(ctx, ck);
  } else {
    ctx.Note("V=void ");
    CoreCase<void>(ctx, ck);
  }
}

}  // namespace

VF_CELL(flatten_unique, "flatten/inner-future", "C02,C01,C03,C04", 6) {
  FlattenCase(ctx, false);
}
VF_CELL(flatten_shared, "flatten/inner-shared-future", "C02,C06,C03,C04", 6) {
  FlattenCase(ctx, true);
}
VF_CELL(owner_destroyed, "continuation-destroys-promise-owner", "C01,C03,C04", 5) {
  OwnerCase(ctx);
}
VF_CELL(throwing_set, "set-throws-then-retry-or-drop", "C01,C03", 5) {
  ThrowingSetCase(ctx);
}
VF_CELL(attach_fails, "attach-fails-then-retry", "C01,C03", 4) {
  AttachFailsCase(ctx);
}
VF_CELL(overwrite, "pending-promise-overwritten", "C01,C03", 4) {
  OverwriteCase(ctx);
}
VF_CELL(shared_throwing_set, "shared-set-throws-then-retry-or-drop", "C06,C03", 4) {
  SharedThrowingSetCase(ctx);
}
VF_CELL(then_inline, "then-inline", "C01,C03,C04", 10) {
  Dispatch(ctx, cThenInline, true, true);
}
VF_CELL(then_exec, "then-exec", "C01,C03,C04,C05", 10) {
  Dispatch(ctx, cThenExec, true, true);
}
VF_CELL(detach_plain, "detach", "C01,C03", 5) {
  Dispatch(ctx, cDetachPlain, true, true);
}
VF_CELL(detach_inline, "detach-inline", "C01,C03,C04", 8) {
  Dispatch(ctx, cDetachInline, true, true);
}
VF_CELL(detach_exec, "detach-exec", "C01,C03,C04,C05", 8) {
  Dispatch(ctx, cDetachExec, true, true);
}
VF_CELL(get_move, "get-move", "C01,C03,C04", 8) {
  Dispatch(ctx, cGetMove, true, true);
}
VF_CELL(get_const, "get-const", "C01,C03,C04", 8) {
  Dispatch(ctx, cGetConst, true, true);
}
VF_CELL(wait_touch, "wait-touch", "C01,C03,C04,C11", 8) {
  Dispatch(ctx, cWaitTouch, true, true);
}
VF_CELL(wait_for, "wait-for", "C01,C03,C11", 10) {
  Dispatch(ctx, cWaitFor, true, true);
}
VF_CELL(wait_until, "wait-until", "C01,C03,C11", 6) {
  Dispatch(ctx, cWaitUntil, true, true);
}
VF_CELL(connect_unique, "connect-unique", "C01,C03,C04", 8) {
  Dispatch(ctx, cConnectUnique, true, true);
}
VF_CELL(connect_shared, "connect-shared", "C01,C03,C04,C06", 8) {
  Dispatch(ctx, cConnectShared, false, true);
}
VF_CELL(split, "split", "C01,C03,C04,C06", 8) {
  Dispatch(ctx, cSplit, false, true);
}
VF_CELL(drop_future, "drop-future", "C01,C03", 5) {
  Dispatch(ctx, cDrop, true, true);
}

int main(int argc, char** argv) {
  return vf::Main(argc, argv, "core");
}
