// fam_coro — C13 (coroutines); also feeds C03, C04, C06, C12.
//
// A coroutine (returning Future, Task or SharedFuture) performs 1-3 awaits chosen at random over every awaitable form;
// what it awaits is already ready, completes while it suspends (a producer thread races) or completes later; values,
// errors and exceptions; unique and shared; several coroutines may await the same SharedFuture; the target executor
// may be stopped.  After every co_await the coroutine checks that the awaited thing really happened.
#include "vf_exec.hpp"

#include <yaclib/async/contract.hpp>
#include <yaclib/async/run.hpp>
#include <yaclib/async/shared_contract.hpp>
#include <yaclib/async/wait.hpp>
#include <yaclib/coro/await.hpp>
#include <yaclib/coro/await_on.hpp>
#include <yaclib/coro/await_sticky.hpp>
#include <yaclib/coro/current_executor.hpp>
#include <yaclib/coro/future.hpp>
#include <yaclib/coro/on.hpp>
#include <yaclib/coro/shared_future.hpp>
#include <yaclib/coro/task.hpp>
#include <yaclib/coro/yield.hpp>
#include <yaclib/lazy/make.hpp>
#include <yaclib/lazy/schedule.hpp>

#include <yaclib_std/chrono>

#include <memory>

#include <deque>
#include <vector>

using namespace vf;
using yaclib::Result;
using R = Result<Tracked, MyError>;

namespace {

inline void Jitter(u32 n) {
#if VF_FIBER
  for (u32 i = 0; i < n; ++i) {
    yaclib_std::this_thread::yield();
  }
#else
  for (volatile u32 i = 0; i < n * 40; ++i) {
  }
#endif
}

enum SrcKind { kVal = 0, kErr = 1, kExc = 2 };

// A coroutine between the promise and the awaited future: the awaited future is then completed from a coroutine's
// final suspend (the awaiter is entered through Next(), with symmetric transfer where enabled) instead of from
// Promise::Set (entered through Here()).
inline yaclib::Future<Tracked, MyError> Relay(yaclib::Future<Tracked, MyError> in) {
  co_await yaclib::Await(in);
  auto r = std::move(in).Touch();
  if (r.State() == yaclib::ResultState::Value) {
    co_return std::move(r).Value();
  }
  if (r.State() == yaclib::ResultState::Error) {
    co_return std::move(r).Error();
  }
  std::rethrow_exception(std::move(r).Exception());
}

struct Src {
  int kind = 0;
  int code = 0;
  int when = 0;  // 0 ready before the coroutine starts, 1 racing, 2 later (sleep)
  u32 jit = 0;
  bool shared = false;
  bool via_coro = false;  // unique only: completed by a relaying coroutine's final suspend
  u64 set_call = 0;
  int side = 0;
  yaclib::Future<Tracked, MyError> uf;
  yaclib::Promise<Tracked, MyError> up;
  yaclib::SharedFuture<Tracked, MyError> sf;
  yaclib::SharedPromise<Tracked, MyError> sp;

  void Make() {
    if (shared) {
      auto [f, p] = yaclib::MakeSharedContract<Tracked, MyError>();
      sf = std::move(f);
      sp = std::move(p);
    } else {
      auto [f, p] = yaclib::MakeContract<Tracked, MyError>();
      uf = via_coro ? Relay(std::move(f)) : std::move(f);
      up = std::move(p);
    }
  }
  template <typename P>
  void SetTo(P&& p) {
    if (kind == kVal) {
      std::move(p).Set(Tracked{code});
    } else if (kind == kErr) {
      std::move(p).Set(MyError{code});
    } else {
      std::move(p).Set(std::make_exception_ptr(MyException{code}));
    }
  }
  void Fulfil() {
    VF_W(side, "C04,C13");
    side = code;
    set_call = Stamp();
    if (shared) {
      SetTo(std::move(sp));
    } else {
      SetTo(std::move(up));
    }
  }
};

enum StepKind {
  aCoAwaitMove,     // co_await std::move(future) / co_await shared
  aAwait1,          // co_await Await(f)
  aAwait2,          // co_await Await(f, g)
  aAwaitIter,       // co_await Await(begin, n)
  aAwaitOn1,        // co_await AwaitOn(e, f)
  aAwaitOn2,        // co_await AwaitOn(e, f, g)
  aAwaitSticky1,    // co_await AwaitSticky(f)
  aAwaitSticky2,    // co_await AwaitSticky(f, g)
  aOn,              // co_await On(e)
  aYield,           // co_await kYield / Yield()
  aCurrent,         // co_await CurrentExecutor()
  aTask,            // co_await std::move(task) where task is a lazy coroutine
  aAwaitTask,       // co_await Await(task)
  kStepKinds
};
const char* const kStepName[] = {"co_await f",   "Await(f)",       "Await(f,g)",       "Await(it,n)", "AwaitOn(e,f)",
                                 "AwaitOn(e,f,g)", "AwaitSticky(f)", "AwaitSticky(f,g)", "On(e)",       "Yield",
                                 "CurrentExecutor", "co_await task", "Await(task)"};

struct Step {
  int kind = 0;
  int s0 = -1, s1 = -1;  // source indices
  bool catch_it = true;
  int flavor = 0;  // iterator form: 0 Await(begin, n), 1 AwaitSticky(begin, n), 2 AwaitOn(e, begin, end)
};

struct Obs {
  std::atomic<int> resumed{0};
  std::atomic<int> bad_not_ready{0};
  std::atomic<int> bad_value{0};
  std::atomic<int> bad_tag{0};
  std::atomic<int> bad_tag_step{-1};
  std::atomic<int> bad_tag_seen{-1};
  std::atomic<int> bad_invalid{0};
  std::atomic<int> bad_side{0};
  std::atomic<int> finished{0};
};

struct World {
  std::deque<Src> src;
  Obs obs;
  TagExec* own = nullptr;
  TagExec* other = nullptr;
};

// after resumption: the awaited source must really be complete and hold what was set
void CheckTouch(World& w, Src& s) {
  bool ready = s.shared ? s.sf.Valid() && s.sf.Ready() : s.uf.Valid() && s.uf.Ready();
  bool valid = s.shared ? s.sf.Valid() : s.uf.Valid();
  if (!valid) {
    w.obs.bad_invalid.fetch_add(1, kRlx);
    return;
  }
  if (!ready || s.set_call == 0) {
    w.obs.bad_not_ready.fetch_add(1, kRlx);
    return;
  }
  VF_R(s.side, "C04,C13");
  if (s.side != s.code) {
    w.obs.bad_side.fetch_add(1, kRlx);
  }
  const R& r = s.shared ? s.sf.Touch() : std::as_const(s.uf).Touch();
  int st = static_cast<int>(r.State());
  int want = s.kind == kVal ? 0 : s.kind == kExc ? 1 : 2;
  bool ok = st == want;
  if (ok && st == 0) {
    ok = r.Value().Fresh() && r.Value().v == s.code;
  } else if (ok && st == 2) {
    ok = r.Error().code == s.code;
  }
  if (!ok) {
    w.obs.bad_value.fetch_add(1, kRlx);
  }
}

inline int TagOf(World& w, yaclib::IExecutor* e) {
  return e == w.own ? 1 : e == w.other ? 2 : -1;
}

inline void Trace(World& w, const char* what, int id, yaclib::IExecutor* mine) {
  if (g_cfg.one) {
    std::printf("TRACE coro %d %s: CurTag=%d TagOf(own executor)=%d\n", id, what, CurTag(), TagOf(w, mine));
  }
}

inline void BadTag(World& w, int step_kind) {
  w.obs.bad_tag.fetch_add(1, kRlx);
  w.obs.bad_tag_step.store(step_kind, kRlx);
  w.obs.bad_tag_seen.store(CurTag(), kRlx);
}

int Expected(const Src& s) {
  return s.code;
}

#define VF_COMMA ,

// The body is the same for the three coroutine kinds; only the return type differs.
#define VF_CORO_BODY(RET)                                                                                              \
  [&w, &plans, &stopped, &locals](int id) -> RET {                                                                     \
    Tracked local{900 + id};                                                                                           \
    locals.fetch_add(1, kRlx);                                                                                         \
    int acc = 0;                                                                                                       \
    co_await yaclib::On(*w.own);                                                                                       \
    int cur_tag = 1;                                                                                                   \
    for (auto& st : plans[static_cast<std::size_t>(id)]) {                                                             \
      Src* a = st.s0 >= 0 ? &w.src[static_cast<std::size_t>(st.s0)] : nullptr;                                         \
      Src* b = st.s1 >= 0 ? &w.src[static_cast<std::size_t>(st.s1)] : nullptr;                                         \
      Trace(w, kStepName[st.kind], id, &co_await yaclib::CurrentExecutor());                                           \
      switch (st.kind) {                                                                                               \
        case aCoAwaitMove: {                                                                                           \
          int got = -1, how = -1;                                                                                      \
          if (st.catch_it) {                                                                                           \
            try {                                                                                                      \
              if (a->shared) {                                                                                         \
                Tracked v = co_await a->sf;                                                                            \
                got = v.Fresh() ? v.v : -2;                                                                            \
              } else {                                                                                                 \
                Tracked v = co_await std::move(a->uf);                                                                 \
                got = v.Fresh() ? v.v : -2;                                                                            \
              }                                                                                                        \
              how = 0;                                                                                                 \
            } catch (const MyException& e) {                                                                           \
              got = e.code;                                                                                            \
              how = 1;                                                                                                 \
            } catch (const yaclib::ResultError<MyError>& e) {                                                          \
              got = e.Get().code;                                                                                      \
              how = 2;                                                                                                 \
            }                                                                                                          \
            int want_how = a->kind == kVal ? 0 : a->kind == kExc ? 1 : 2;                                              \
            if (got != a->code || how != want_how) {                                                                   \
              w.obs.bad_value.fetch_add(1, kRlx);                                                                      \
            }                                                                                                          \
            if (a->set_call == 0) {                                                                                    \
              w.obs.bad_not_ready.fetch_add(1, kRlx);                                                                  \
            }                                                                                                          \
            VF_R(a->side, "C04,C13");                                                                                  \
            if (a->side != a->code) {                                                                                  \
              w.obs.bad_side.fetch_add(1, kRlx);                                                                       \
            }                                                                                                          \
          } else {                                                                                                     \
            /* a failure escapes and becomes the coroutine's own Result */                                             \
            if (a->shared) {                                                                                           \
              Tracked v = co_await a->sf;                                                                              \
              got = v.v;                                                                                               \
            } else {                                                                                                   \
              Tracked v = co_await std::move(a->uf);                                                                   \
              got = v.v;                                                                                               \
            }                                                                                                          \
            if (got != a->code) {                                                                                      \
              w.obs.bad_value.fetch_add(1, kRlx);                                                                      \
            }                                                                                                          \
          }                                                                                                            \
          acc += a->code;                                                                                              \
        } break;                                                                                                       \
        case aAwait1:                                                                                                  \
          if (a->shared) {                                                                                             \
            co_await yaclib::Await(a->sf);                                                                             \
          } else {                                                                                                     \
            co_await yaclib::Await(a->uf);                                                                             \
          }                                                                                                            \
          CheckTouch(w, *a);                                                                                           \
          break;                                                                                                       \
        case aAwait2:                                                                                                  \
          if (a->shared && b->shared) {                                                                                \
            co_await yaclib::Await(a->sf, b->sf);                                                                      \
          } else if (a->shared) {                                                                                      \
            co_await yaclib::Await(a->sf, b->uf);                                                                      \
          } else if (b->shared) {                                                                                      \
            co_await yaclib::Await(a->uf, b->sf);                                                                      \
          } else {                                                                                                     \
            co_await yaclib::Await(a->uf, b->uf);                                                                      \
          }                                                                                                            \
          CheckTouch(w, *a);                                                                                           \
          CheckTouch(w, *b);                                                                                           \
          break;                                                                                                       \
        case aAwaitIter: {                                                                                             \
          yaclib::IExecutor* mine = &co_await yaclib::CurrentExecutor();                                               \
          int tag_before = CurTag();                                                                                   \
          if (a->shared) {                                                                                             \
            std::vector<yaclib::SharedFuture<Tracked, MyError>> v{a->sf, b->sf};                                       \
            if (st.flavor == 1) {                                                                                      \
              co_await yaclib::AwaitSticky(v.begin(), v.size());                                                       \
            } else if (st.flavor == 2) {                                                                               \
              co_await yaclib::AwaitOn(*w.other, v.begin(), v.end());                                                  \
            } else {                                                                                                   \
              co_await yaclib::Await(v.begin(), v.size());                                                             \
            }                                                                                                          \
          } else {                                                                                                     \
            std::vector<yaclib::Future<Tracked, MyError>> v;                                                           \
            v.push_back(std::move(a->uf));                                                                             \
            v.push_back(std::move(b->uf));                                                                             \
            if (st.flavor == 1) {                                                                                      \
              co_await yaclib::AwaitSticky(v.begin(), v.end());                                                        \
            } else if (st.flavor == 2) {                                                                               \
              co_await yaclib::AwaitOn(*w.other, v.begin(), v.size());                                                 \
            } else {                                                                                                   \
              co_await yaclib::Await(v.begin(), v.end());                                                              \
            }                                                                                                          \
            a->uf = std::move(v[0]);                                                                                   \
            b->uf = std::move(v[1]);                                                                                   \
          }                                                                                                            \
          if (st.flavor == 1) {                                                                                        \
            if (TagOf(w, mine) > 0 && CurTag() != TagOf(w, mine) && CurTag() != tag_before) {                          \
              BadTag(w, st.kind);                                                                                      \
            }                                                                                                          \
            if (&co_await yaclib::CurrentExecutor() != mine) {                                                         \
              BadTag(w, st.kind);                                                                                      \
            }                                                                                                          \
          } else if (st.flavor == 2) {                                                                                 \
            cur_tag = 2;                                                                                               \
            if (CurTag() != 2) {                                                                                       \
              BadTag(w, st.kind);                                                                                      \
            }                                                                                                          \
          }                                                                                                            \
          CheckTouch(w, *a);                                                                                           \
          CheckTouch(w, *b);                                                                                           \
        } break;                                                                                                       \
        case aAwaitOn1:                                                                                                \
          if (a->shared) {                                                                                             \
            co_await yaclib::AwaitOn(*w.other, a->sf);                                                                 \
          } else {                                                                                                     \
            co_await yaclib::AwaitOn(*w.other, a->uf);                                                                 \
          }                                                                                                            \
          cur_tag = 2;                                                                                                 \
          if (CurTag() != 2) {                                                                                         \
            BadTag(w, st.kind);                                                                          \
          }                                                                                                            \
          CheckTouch(w, *a);                                                                                           \
          break;                                                                                                       \
        case aAwaitOn2:                                                                                                \
          if (a->shared && b->shared) {                                                                                \
            co_await yaclib::AwaitOn(*w.other, a->sf, b->sf);                                                          \
          } else if (a->shared) {                                                                                      \
            co_await yaclib::AwaitOn(*w.other, a->sf, b->uf);                                                          \
          } else if (b->shared) {                                                                                      \
            co_await yaclib::AwaitOn(*w.other, a->uf, b->sf);                                                          \
          } else {                                                                                                     \
            co_await yaclib::AwaitOn(*w.other, a->uf, b->uf);                                                          \
          }                                                                                                            \
          cur_tag = 2;                                                                                                 \
          if (CurTag() != 2) {                                                                                         \
            BadTag(w, st.kind);                                                                          \
          }                                                                                                            \
          CheckTouch(w, *a);                                                                                           \
          CheckTouch(w, *b);                                                                                           \
          break;                                                                                                       \
        case aAwaitSticky1: {                                                                                          \
          yaclib::IExecutor* mine = &co_await yaclib::CurrentExecutor();                                               \
          int tag_before = CurTag();                                                                                   \
          Trace(w, "before AwaitSticky", id, mine);                                                                    \
          if (a->shared) {                                                                                             \
            co_await yaclib::AwaitSticky(a->sf);                                                                       \
          } else {                                                                                                     \
            co_await yaclib::AwaitSticky(a->uf);                                                                       \
          }                                                                                                            \
          Trace(w, "after AwaitSticky", id, mine);                                                                     \
          /* resumed on the coroutine's own executor, or not suspended at all (everything was already ready) */        \
          if (TagOf(w, mine) > 0 && CurTag() != TagOf(w, mine) && CurTag() != tag_before) {                                                      \
            BadTag(w, st.kind);                                                                                        \
          }                                                                                                            \
          if (&co_await yaclib::CurrentExecutor() != mine) {                                                           \
            BadTag(w, st.kind);                                                                                        \
          }                                                                                                            \
          CheckTouch(w, *a);                                                                                           \
        } break;                                                                                                       \
        case aAwaitSticky2: {                                                                                          \
          yaclib::IExecutor* mine = &co_await yaclib::CurrentExecutor();                                               \
          int tag_before = CurTag();                                                                                   \
          if (a->shared && b->shared) {                                                                                \
            co_await yaclib::AwaitSticky(a->sf, b->sf);                                                                \
          } else if (a->shared) {                                                                                      \
            co_await yaclib::AwaitSticky(a->sf, b->uf);                                                                \
          } else if (b->shared) {                                                                                      \
            co_await yaclib::AwaitSticky(a->uf, b->sf);                                                                \
          } else {                                                                                                     \
            co_await yaclib::AwaitSticky(a->uf, b->uf);                                                                \
          }                                                                                                            \
          if (TagOf(w, mine) > 0 && CurTag() != TagOf(w, mine) && CurTag() != tag_before) {                                                      \
            BadTag(w, st.kind);                                                                                        \
          }                                                                                                            \
          CheckTouch(w, *a);                                                                                           \
          CheckTouch(w, *b);                                                                                           \
        } break;                                                                                                       \
        case aOn:                                                                                                      \
          co_await yaclib::On(cur_tag == 1 ? *w.other : *w.own);                                                       \
          cur_tag = cur_tag == 1 ? 2 : 1;                                                                              \
          if (CurTag() != cur_tag) {                                                                                   \
            BadTag(w, st.kind);                                                                                        \
          }                                                                                                            \
          if (&co_await yaclib::CurrentExecutor() != (cur_tag == 1 ? static_cast<yaclib::IExecutor*>(w.own) : w.other)) { \
            BadTag(w, st.kind);                                                                                        \
          }                                                                                                            \
          break;                                                                                                       \
        case aYield: {                                                                                                 \
          yaclib::IExecutor* mine = &co_await yaclib::CurrentExecutor();                                               \
          if (st.catch_it) {                                                                                           \
            co_await yaclib::kYield;                                                                                   \
          } else {                                                                                                     \
            auto& e = co_await yaclib::Yield();                                                                        \
            if (&e != mine) {                                                                                          \
              BadTag(w, st.kind);                                                                                      \
            }                                                                                                          \
          }                                                                                                            \
          if (TagOf(w, mine) > 0 && CurTag() != TagOf(w, mine)) {                                                      \
            BadTag(w, st.kind);                                                                                        \
          }                                                                                                            \
        } break;                                                                                                       \
        case aCurrent: {                                                                                               \
          auto& e = co_await yaclib::CurrentExecutor();                                                                \
          if (&e != &co_await yaclib::CurrentExecutor()) {                                                             \
            BadTag(w, st.kind);                                                                                        \
          }                                                                                                            \
        } break;                                                                                                       \
        default:                                                                                                       \
          break;                                                                                                       \
      }                                                                                                                \
      w.obs.resumed.fetch_add(1, kRlx);                                                                                \
      if (stopped && st.kind == aOn) {                                                                                 \
        /* unreachable when `other` is stopped: the coroutine is completed with StopError instead */                   \
      }                                                                                                                \
    }                                                                                                                  \
    if (!local.Fresh() || local.v != 900 + id) {                                                                       \
      w.obs.bad_value.fetch_add(1, kRlx);                                                                              \
    }                                                                                                                  \
    w.obs.finished.fetch_add(1, kRlx);                                                                                 \
    co_return Tracked{acc};                                                                                            \
  }

enum CoroKind { cFuture, cTask, cShared };
const char* const kCoroName[] = {"Future", "Task", "SharedFuture"};

void CoroCase(Ctx& ctx, int coro_kind, bool stopped_target) {
  ResetTags();
  World w;
  int ncoro = static_cast<int>(ctx.rng.In(1, 3));
  int nsrc = static_cast<int>(ctx.rng.In(2, 5));
  for (int i = 0; i < nsrc; ++i) {
    auto& s = w.src.emplace_back();
    s.kind = static_cast<int>(ctx.rng.Below(3));
    s.code = 100 * (i + 1) + static_cast<int>(ctx.rng.Below(100));
    s.when = static_cast<int>(ctx.rng.Below(3));
    s.jit = ctx.rng.Below(8);
    s.shared = ctx.rng.Below(3) == 0;
    s.via_coro = !s.shared && ctx.rng.Below(3) == 0;
  }
  std::vector<std::vector<Step>> plans(static_cast<std::size_t>(ncoro));
  // unique sources are consumed by at most one step of one coroutine; shared ones may be awaited by everybody
  std::vector<int> used(static_cast<std::size_t>(nsrc), 0);
  auto pick = [&](bool need_unused, int want_shared /* -1 any */) -> int {
    for (int tries = 0; tries < 20; ++tries) {
      int i = static_cast<int>(ctx.rng.Below(static_cast<u32>(nsrc)));
      auto& s = w.src[static_cast<std::size_t>(i)];
      if (want_shared >= 0 && static_cast<int>(s.shared) != want_shared) {
        continue;
      }
      if (!s.shared && used[static_cast<std::size_t>(i)] != 0 && need_unused) {
        continue;
      }
      used[static_cast<std::size_t>(i)]++;
      return i;
    }
    return -1;
  };
  std::vector<int> expect_fail_kind(static_cast<std::size_t>(ncoro), -1);  // escaping failure: source index
  ctx.Note("%s coroutine x%d%s: ", kCoroName[coro_kind], ncoro, stopped_target ? " (other executor stopped)" : "");
  for (int c = 0; c < ncoro; ++c) {
    int len = static_cast<int>(ctx.rng.In(1, 3));
    bool dead = false;
    for (int k = 0; k < len && !dead; ++k) {
      Step st;
      st.kind = static_cast<int>(ctx.rng.Below(aTask));  // aTask/aAwaitTask are covered by the lazy cells below
      st.catch_it = ctx.rng.Below(4) != 0;
      bool two = st.kind == aAwait2 || st.kind == aAwaitIter || st.kind == aAwaitOn2 || st.kind == aAwaitSticky2;
      bool needs_src = st.kind <= aAwaitSticky2;
      if (needs_src) {
        st.s0 = pick(true, -1);
        if (st.s0 < 0) {
          continue;
        }
        if (two) {
          int want = st.kind == aAwaitIter ? static_cast<int>(w.src[static_cast<std::size_t>(st.s0)].shared) : -1;
          st.s1 = pick(true, want);
          if (st.s1 < 0 || st.s1 == st.s0) {
            st.kind = st.kind == aAwaitOn2 ? aAwaitOn1 : st.kind == aAwaitSticky2 ? aAwaitSticky1 : aAwait1;
            st.s1 = -1;
          }
        }
      }
      if (st.kind == aCoAwaitMove && !st.catch_it && w.src[static_cast<std::size_t>(st.s0)].kind != kVal) {
        expect_fail_kind[static_cast<std::size_t>(c)] = st.s0;
        dead = true;  // the coroutine ends here
      }
      if (st.kind == aAwaitIter) {
        st.flavor = static_cast<int>(ctx.rng.Below(3));
      }
      bool to_other = st.kind == aAwaitOn1 || st.kind == aAwaitOn2 || st.kind == aOn || (st.kind == aAwaitIter && st.flavor == 2);
      plans[static_cast<std::size_t>(c)].push_back(st);
      ctx.Note("%s%s ", kStepName[st.kind], st.catch_it ? "" : "!");
      if (stopped_target && to_other) {
        // the first step that targets the stopped executor completes the coroutine with StopError
        if (st.kind != aOn || true) {
          expect_fail_kind[static_cast<std::size_t>(c)] = -2;
          dead = true;
        }
      }
    }
    ctx.Note("| ");
  }
  // `aOn` alternates between own and other starting from own; with a stopped `other` the first aOn targets it
  auto pool1 = yaclib::MakeFairThreadPool(1);
  auto pool2 = yaclib::MakeFairThreadPool(1);
  TagExec own{1, *pool1};
  TagExec other{2, stopped_target ? yaclib::MakeInline(yaclib::StopTag{}) : static_cast<yaclib::IExecutor&>(*pool2)};
  w.own = &own;
  w.other = &other;
  bool stopped = stopped_target;
  std::atomic<int> locals{0};
  for (auto& s : w.src) {
    s.Make();
    if (s.when == 0) {
      s.Fulfil();
    }
  }
  std::vector<R> results;
  std::vector<int> result_valid(static_cast<std::size_t>(ncoro), 0);
  results.resize(static_cast<std::size_t>(ncoro));
  {
    auto fbody = VF_CORO_BODY(yaclib::Future<Tracked VF_COMMA MyError>);
    auto tbody = VF_CORO_BODY(yaclib::Task<Tracked VF_COMMA MyError>);
    auto sbody = VF_CORO_BODY(yaclib::SharedFuture<Tracked VF_COMMA MyError>);
    std::vector<yaclib_std::thread> ts;
    for (auto& s : w.src) {
      if (s.when != 0) {
        ts.emplace_back([&s] {
          if (s.when == 2) {
            yaclib_std::this_thread::sleep_for(std::chrono::nanoseconds{200 + s.jit * 40});
          }
          Jitter(s.jit);
          s.Fulfil();
        });
      }
    }
    std::vector<yaclib::Future<Tracked, MyError>> futs(static_cast<std::size_t>(ncoro));
    std::vector<yaclib::SharedFuture<Tracked, MyError>> sfuts(static_cast<std::size_t>(ncoro));
    ts.emplace_back([&] {
      for (int c = 0; c < ncoro; ++c) {
        auto k = static_cast<std::size_t>(c);
        if (coro_kind == cFuture) {
          futs[k] = fbody(c);
        } else if (coro_kind == cTask) {
          auto t = tbody(c);
          if (locals.load(kRlx) != c) {
            w.obs.bad_value.fetch_add(1000, kRlx);  // a lazy coroutine ran before it was started
          }
          futs[k] = std::move(t).ToFuture();
        } else {
          sfuts[k] = sbody(c);
        }
      }
    });
    for (auto& t : ts) {
      t.join();
    }
    for (int c = 0; c < ncoro; ++c) {
      auto k = static_cast<std::size_t>(c);
      if (coro_kind == cShared) {
        yaclib::Wait(sfuts[k]);
        results[k] = sfuts[k].Touch();
        sfuts[k] = {};
      } else {
        yaclib::Wait(futs[k]);
        results[k] = std::move(futs[k]).Get();
      }
      result_valid[k] = 1;
    }
    for (auto& s : w.src) {
      s.uf = {};
      s.sf = {};
      s.up = {};
      s.sp = {};
    }
  }
  pool1->Stop();
  pool1->Wait();
  pool2->Stop();
  pool2->Wait();
  // ---- oracles
  ctx.SetNontrivial(true);
  int racing = 0;
  for (auto& s : w.src) {
    racing += s.when == 1;
  }
  ctx.Class(racing != 0 ? "with-racing-source" : "no-racing-source");
  ctx.Observe(static_cast<u64>(w.obs.resumed.load(kRlx)));
  bool any_shared = false;
  for (auto& s : w.src) {
    any_shared |= s.shared;
  }
  // a coroutine awaiting a SharedFuture is one of its observers (C06): exactly one resumption, only after fulfilment
  const char* obs_props = any_shared ? "C13,C06" : "C13";
  ctx.Check(w.obs.bad_not_ready.load(kRlx) == 0, "resumed-before-complete", obs_props,
            "%d resumptions found the awaited future not Ready / its producer's Set not begun",
            w.obs.bad_not_ready.load(kRlx));
  ctx.Check(w.obs.bad_value.load(kRlx) == 0, "awaited-outcome", obs_props,
            "%d resumptions received a value/exception different from what was set (or a torn frame local)",
            w.obs.bad_value.load(kRlx));
  ctx.Check(w.obs.bad_tag.load(kRlx) == 0, "resumed-on-executor", "C13,C05",
            "%d resumptions happened on an executor other than the one the awaiter names (last: after %s, tag seen %d)",
            w.obs.bad_tag.load(kRlx),
            w.obs.bad_tag_step.load(kRlx) >= 0 ? kStepName[w.obs.bad_tag_step.load(kRlx)] : "?",
            w.obs.bad_tag_seen.load(kRlx));
  ctx.Check(w.obs.bad_invalid.load(kRlx) == 0, "await-leaves-valid", "C13",
            "%d futures were left invalid by Await/AwaitOn/AwaitSticky", w.obs.bad_invalid.load(kRlx));
  ctx.Check(w.obs.bad_side.load(kRlx) == 0, "visibility", "C13,C04",
            "%d resumptions did not see what the producer wrote before fulfilling", w.obs.bad_side.load(kRlx));
  long want_resumed = 0;
  for (int c = 0; c < ncoro; ++c) {
    auto k = static_cast<std::size_t>(c);
    auto& plan = plans[k];
    int ef = expect_fail_kind[k];
    long steps = static_cast<long>(plan.size());
    want_resumed += ef == -1 ? steps : steps - 1;
    if (result_valid[k] == 0) {
      continue;
    }
    const R& r = results[k];
    int st = static_cast<int>(r.State());
    if (ef == -1) {
      int acc = 0;
      for (auto& s : plan) {
        if (s.kind == aCoAwaitMove) {
          acc += w.src[static_cast<std::size_t>(s.s0)].code;
        }
      }
      ctx.Check(st == 0 && r.Value().Fresh() && r.Value().v == acc, "coroutine-result", "C13",
                "coroutine %d: Result state %d value %d, expected co_return value %d", c, st,
                st == 0 ? r.Value().v : -1, acc);
    } else if (ef == -2) {
      ctx.Check(st == 2 && r.Error().code == -1, "stopped-executor-result", "C13,C05",
                "coroutine %d resumed onto a stopped executor: Result state %d, expected StopError", c, st);
    } else {
      auto& s = w.src[static_cast<std::size_t>(ef)];
      bool ok = st == 1;
      int code = -1;
      if (ok) {
        try {
          std::rethrow_exception(r.Exception());
        } catch (const MyException& e) {
          code = s.kind == kExc ? e.code : -3;
        } catch (const yaclib::ResultError<MyError>& e) {
          code = s.kind == kErr ? e.Get().code : -4;
        } catch (...) {
          code = -5;
        }
      }
      ctx.Check(ok && code == s.code, "escaping-exception-result", "C13",
                "coroutine %d let the failure of source %d escape: Result state %d code %d, expected Exception code %d",
                c, ef, st, code, s.code);
    }
  }
  ctx.Check(w.obs.resumed.load(kRlx) == want_resumed, "resumed-exactly-once", obs_props,
            "%d resumptions counted after co_await expressions, expected %ld", w.obs.resumed.load(kRlx), want_resumed);
}

// lazy heads awaited from a coroutine: co_await std::move(task), co_await Await(task), for every kind of head
// (function step, contract step, ready value, coroutine), with and without a further lazy step
void AwaitTaskCase(Ctx& ctx) {
  ResetTags();
  int head = static_cast<int>(ctx.rng.Below(6));  // 0 coroutine, 1 Schedule(e,f), 2 Schedule(f), 3 LazyContract, 4 MakeTask, 5 LazyContract(e)
  int form = static_cast<int>(ctx.rng.Below(2));  // 0 co_await std::move(task), 1 Await(task)
  bool touch_move = ctx.rng.Coin();                // Await(task): read the result with Touch() const& or take it with Touch() &&
  bool extra = ctx.rng.Coin();                    // .ThenInline(h) after the head
  bool head_fails = ctx.rng.Below(4) == 0;
  int code = static_cast<int>(ctx.rng.In(1, 1000));
  static const char* const kHead[] = {"coroutine", "Schedule(e,f)", "Schedule(f)", "LazyContract(f)", "MakeTask", "LazyContract(e,f)"};
  ctx.Note("await a lazy Task from a coroutine: head=%s%s form=%s%s", kHead[head], extra ? "+ThenInline" : "",
           form == 0 ? "co_await task" : "Await(task)", head_fails ? " (head fails)" : "");
  auto pool = yaclib::MakeFairThreadPool(1);
  auto pool2 = yaclib::MakeFairThreadPool(1);
  TagExec e2{2, *pool2};
  std::atomic<int> started{0};
  std::atomic<int> extra_ran{0};
  std::atomic<int> bad{0};
  std::atomic<int> head_tag{-1};
  TagExec e1{1, *pool};
  std::atomic<int> inner_exec_bad{0};
  auto inner = [&](int c) -> yaclib::Task<Tracked, MyError> {
    started.fetch_add(1, kRlx);
    // a Task coroutine started by co_await runs as a continuation of the awaiting coroutine: it inherits its executor
    if (&co_await yaclib::CurrentExecutor() != static_cast<yaclib::IExecutor*>(&e1)) {
      inner_exec_bad.fetch_add(1, kRlx);
    }
    if (head_fails) {
      co_return MyError{c};
    }
    co_return Tracked{c};
  };
  auto make = [&]() -> yaclib::Task<Tracked, MyError> {
    auto fn = [&started, &head_tag, head_fails, code]() -> R {
      started.fetch_add(1, kRlx);
      head_tag.store(CurTag(), kRlx);
      if (head_fails) {
        return MyError{code};
      }
      return Tracked{code};
    };
    auto pfn = [&started, &head_tag, head_fails, code](yaclib::Promise<Tracked, MyError>&& p) {
      started.fetch_add(1, kRlx);
      head_tag.store(CurTag(), kRlx);
      if (head_fails) {
        std::move(p).Set(MyError{code});
      } else {
        std::move(p).Set(Tracked{code});
      }
    };
    switch (head) {
      case 0:
        return inner(code);
      case 1:
        return yaclib::Schedule<MyError>(e2, fn);
      case 2:
        return yaclib::Schedule<MyError>(fn);
      case 3:
        return yaclib::LazyContract<Tracked, MyError>(pfn);
      case 4:
        started.fetch_add(1, kRlx);
        if (head_fails) {
          return yaclib::MakeTask<Tracked, MyError>(MyError{code});
        }
        return yaclib::MakeTask<Tracked, MyError>(Tracked{code});
      default:
        return yaclib::LazyContract<Tracked, MyError>(e2, pfn);
    }
  };
  int want_value = extra ? code + 1 : code;
  auto outer = [&]() -> yaclib::Future<Tracked, MyError> {
    co_await yaclib::On(e1);
    auto t0 = make();
    if (head != 4 && started.load(kRlx) != 0) {
      bad.fetch_add(1, kRlx);  // ran before being awaited
    }
    yaclib::Task<Tracked, MyError> t;
    if (extra) {
      t = std::move(t0).ThenInline([&extra_ran](Tracked v) {
        extra_ran.fetch_add(1, kRlx);
        return Tracked{v.v + 1};
      });
    } else {
      t = std::move(t0);
    }
    if (form == 0) {
      Tracked v = co_await std::move(t);  // a failing head makes this throw: the exception becomes our Result
      if (!v.Fresh() || v.v != want_value) {
        bad.fetch_add(1, kRlx);
      }
      co_return v;
    }
    co_await yaclib::Await(t);
    if (started.load(kRlx) != 1 || !t.Valid() || !t.Ready()) {
      bad.fetch_add(1, kRlx);
      co_return Tracked{-1};
    }
    if (touch_move) {
      // the completed Task gives its result away: afterwards it holds nothing and everything it owned is released
      R r = std::move(t).Touch();
      if (r.State() != yaclib::ResultState::Value) {
        co_return MyError{r.State() == yaclib::ResultState::Error ? std::as_const(r).Error().code : -5};
      }
      co_return Tracked{std::as_const(r).Value().v};
    }
    const R& r = std::as_const(t).Touch();
    if (r.State() != yaclib::ResultState::Value) {
      co_return MyError{r.State() == yaclib::ResultState::Error ? r.Error().code : -5};
    }
    co_return Tracked{r.Value().v};
  };
  {
    auto f = outer();
    auto r = std::move(f).Get();
    ctx.Check(inner_exec_bad.load(kRlx) == 0, "task-inherits-executor", "C13,C12",
              "a Task coroutine started by %s did not run with the awaiting coroutine's executor as CurrentExecutor()",
              form == 0 ? "co_await std::move(task)" : "co_await Await(task)");
    if (!head_fails) {
      ctx.Check(r.State() == yaclib::ResultState::Value && std::as_const(r).Value().v == want_value, "coroutine-result",
                "C13,C12", "awaiting a lazy Task (head %s) produced state %d, expected value %d", kHead[head],
                (int)r.State(), want_value);
    } else if (form == 0) {
      int got = -9;
      if (r.State() == yaclib::ResultState::Exception) {
        try {
          std::rethrow_exception(std::as_const(r).Exception());
        } catch (const yaclib::ResultError<MyError>& e) {
          got = e.Get().code;
        } catch (...) {
        }
      }
      ctx.Check(got == code, "escaping-exception-result", "C13,C12",
                "co_await of a failing lazy Task (head %s): Result state %d code %d, expected the head's error %d rethrown",
                kHead[head], (int)r.State(), got, code);
    } else {
      ctx.Check(r.State() == yaclib::ResultState::Error && std::as_const(r).Error().code == code, "coroutine-result",
                "C13,C12", "Await(task) of a failing head %s: Result state %d", kHead[head], (int)r.State());
    }
  }
  pool->Stop();
  pool->Wait();
  pool2->Stop();
  pool2->Wait();
  ctx.SetNontrivial(true);
  ctx.Observe(static_cast<u64>(head * 8 + form * 4 + (extra ? 2 : 0) + (head_fails ? 1 : 0)));
  ctx.Check(bad.load(kRlx) == 0 && started.load(kRlx) == 1, "lazy-started-by-await", "C13,C12",
            "lazy task head %s ran %d times, %d inconsistencies", kHead[head], started.load(kRlx), bad.load(kRlx));
  ctx.Check(extra_ran.load(kRlx) == ((extra && !head_fails) ? 1 : 0), "lazy-step-once", "C12",
            "lazy ThenInline step after the head ran %d times", extra_ran.load(kRlx));
  if (head == 1 || head == 5) {
    ctx.Check(head_tag.load(kRlx) == 2, "ran-on-executor", "C12,C05", "head %s ran with executor tag %d, expected 2",
              kHead[head], head_tag.load(kRlx));
  }
}


// A Task coroutine returned from a plain continuation is started by that step: it runs lazily (only then), exactly
// once, and with the step's executor as its own (CurrentExecutor(), Yield() re-submits there).
void ReturnedTaskCase(Ctx& ctx) {
  ResetTags();
  int via = static_cast<int>(ctx.rng.Below(3));  // 0 Run(e2).Then(e1, step)  1 Schedule(e2).Then(e1, step).ToFuture()  2 ...Detach-free Get on a Task
  bool yield_inside = ctx.rng.Coin();
  bool fails = ctx.rng.Below(4) == 0;
  int code = static_cast<int>(ctx.rng.In(1, 1000));
  ctx.Note("Task coroutine returned from a Then(e1, step) of %s%s%s ", via == 0 ? "an eager pipeline" : via == 1 ? "a lazy pipeline (ToFuture)" : "a lazy pipeline (Get)",
           yield_inside ? ", yields inside" : "", fails ? " (fails)" : "");
  auto pool = yaclib::MakeFairThreadPool(1);
  auto pool2 = yaclib::MakeFairThreadPool(1);
  TagExec e1{1, *pool};
  TagExec e2{2, *pool2};
  std::atomic<int> started{0}, bad_exec{0}, bad_tag{0}, built{0};
  auto inner = [&](int c) -> yaclib::Task<Tracked, MyError> {
    started.fetch_add(1, kRlx);
    if (&co_await yaclib::CurrentExecutor() != static_cast<yaclib::IExecutor*>(&e1)) {
      bad_exec.fetch_add(1, kRlx);
    }
    if (CurTag() != 1) {
      bad_tag.fetch_add(1, kRlx);
    }
    if (yield_inside) {
      auto& again = co_await yaclib::Yield();
      if (&again != static_cast<yaclib::IExecutor*>(&e1)) {
        bad_exec.fetch_add(1, kRlx);
      }
      if (CurTag() != 1) {
        bad_tag.fetch_add(1, kRlx);
      }
    }
    if (fails) {
      co_return MyError{c};
    }
    co_return Tracked{c + 1};
  };
  auto head = [code]() -> R {
    return Tracked{code};
  };
  auto step = [&](Tracked v) -> yaclib::Task<Tracked, MyError> {
    built.fetch_add(1, kRlx);
    return inner(v.v);
  };
  {
    R r = [&]() -> R {
      if (via == 0) {
        return yaclib::Run<MyError>(e2, head).Then(e1, step).Get();
      }
      if (via == 1) {
        return yaclib::Schedule<MyError>(e2, head).Then(e1, step).ToFuture().Get();
      }
      return yaclib::Schedule<MyError>(e2, head).Then(e1, step).Get();
    }();
    if (fails) {
      ctx.Check(r.State() == yaclib::ResultState::Error && std::as_const(r).Error().code == code, "coroutine-result", "C12,C13",
                "a failing Task coroutine returned from a step gave state %d", (int)r.State());
    } else {
      ctx.Check(r.State() == yaclib::ResultState::Value && std::as_const(r).Value().v == code + 1 && std::as_const(r).Value().Fresh(),
                "coroutine-result", "C12,C13", "a Task coroutine returned from a step gave state %d, expected value %d",
                (int)r.State(), code + 1);
    }
  }
  pool->Stop();
  pool->Wait();
  pool2->Stop();
  pool2->Wait();
  ctx.SetNontrivial(true);
  ctx.Observe(static_cast<u64>(via * 4 + (yield_inside ? 2 : 0) + (fails ? 1 : 0)));
  ctx.Check(started.load(kRlx) == 1 && built.load(kRlx) == 1, "lazy-started-by-step", "C12,C13",
            "the returned Task coroutine started %d times (step ran %d times)", started.load(kRlx), built.load(kRlx));
  ctx.Check(bad_exec.load(kRlx) == 0, "task-inherits-executor", "C12,C13",
            "a Task coroutine returned from Then(e1, step) did not have e1 as CurrentExecutor()/Yield() executor (%d times)",
            bad_exec.load(kRlx));
  ctx.Check(bad_tag.load(kRlx) == 0, "ran-on-executor", "C12,C13,C05",
            "a Task coroutine returned from Then(e1, step) ran a part of its body outside e1 (%d times)", bad_tag.load(kRlx));
}

// A never-started Task that is overwritten by move assignment is an abandoned Task: no head/value callback runs, the
// chain is cancelled with StopError exactly once and every captured functor is released - at the latest when the
// moved-from object dies.  The Task that took its place still works.
void TaskOverwriteCase(Ctx& ctx) {
  ResetTags();
  int with = static_cast<int>(ctx.rng.Below(3));  // 0 a temporary ready Task, 1 a named unstarted pipeline, 2 an empty Task
  int code = static_cast<int>(ctx.rng.In(1, 1000));
  bool observer_last = ctx.rng.Coin();
  ctx.Note("unstarted lazy pipeline overwritten by move assignment with %s; Result observer %s ",
           with == 0 ? "a temporary MakeTask" : with == 1 ? "a named unstarted Schedule pipeline" : "an empty Task",
           observer_last ? "last" : "in the middle");
  auto pool = yaclib::MakeFairThreadPool(1);
  TagExec e1{1, *pool};
  auto token = std::make_shared<int>(7);
  std::atomic<int> head_ran{0}, value_ran{0}, stop_seen{0}, other_seen{0}, new_head{0};
  int got = -9;
  {
    auto head = [token, &head_ran]() -> R {
      head_ran.fetch_add(1, kRlx);
      return Tracked{1};
    };
    auto value_cb = [token, &value_ran](Tracked v) {
      value_ran.fetch_add(1, kRlx);
      return Tracked{v.v + 1};
    };
    auto observer = [token, &stop_seen, &other_seen](R&& r) -> R {
      if (r.State() == yaclib::ResultState::Error && std::as_const(r).Error().code == -1) {
        stop_seen.fetch_add(1, kRlx);
      } else {
        other_seen.fetch_add(1, kRlx);
      }
      return std::move(r);
    };
    yaclib::Task<Tracked, MyError> t;
    if (observer_last) {
      t = yaclib::Schedule<MyError>(e1, head).ThenInline(value_cb).ThenInline(observer);
    } else {
      t = yaclib::Schedule<MyError>(e1, head).ThenInline(observer).ThenInline(value_cb);
    }
    // `head`, `value_cb`, `observer` (the originals) + the three copies inside the pipeline
    if (with == 0) {
      t = yaclib::MakeTask<Tracked, MyError>(Tracked{code});
    } else if (with == 1) {
      auto other = yaclib::Schedule<MyError>(e1, [&new_head, code]() -> R {
        new_head.fetch_add(1, kRlx);
        return Tracked{code};
      });
      t = std::move(other);
      // `other` dies here, with whatever the assignment left in it
    } else {
      yaclib::Task<Tracked, MyError> empty;
      t = std::move(empty);
    }
    ctx.Check(stop_seen.load(kRlx) == 1 && other_seen.load(kRlx) == 0, "abandoned-sees-stop", "C12",
              "after overwriting an unstarted pipeline its Result observer saw StopError %d times and something else %d times",
              stop_seen.load(kRlx), other_seen.load(kRlx));
    if (with != 2) {
      ctx.Check(t.Valid(), "overwritten-task-valid", "C12", "the Task that was assigned is not Valid()");
      if (t.Valid()) {
        auto r = std::move(t).Get();
        got = r.State() == yaclib::ResultState::Value ? std::as_const(r).Value().v : -1;
      }
      ctx.Check(got == code, "final-result", "C12", "the Task moved over an unstarted pipeline delivered %d, expected %d", got, code);
    } else {
      ctx.Check(!t.Valid(), "overwritten-task-valid", "C12", "a Task overwritten with an empty Task is still Valid()");
    }
  }
  pool->Stop();
  pool->Wait();
  ctx.SetNontrivial(true);
  ctx.Observe(static_cast<u64>(with * 2 + (observer_last ? 1 : 0)));
  ctx.Check(head_ran.load(kRlx) == 0 && value_ran.load(kRlx) == 0, "abandoned-runs-nothing", "C12",
            "an overwritten unstarted pipeline ran its head %d times and its value callback %d times", head_ran.load(kRlx),
            value_ran.load(kRlx));
  ctx.Check(with != 1 || new_head.load(kRlx) == 1, "lazy-started-by-step", "C12", "the Task that took the place ran its head %d times",
            new_head.load(kRlx));
  ctx.Check(token.use_count() == 1, "abandoned-releases-functors", "C12,C03",
            "%ld references to the functors' capture are still alive after the overwritten pipeline and every local are gone",
            static_cast<long>(token.use_count()) - 1);
}

// ---- round 8: a coroutine that is already bound to executor e asks for e again (On / Yield / kYield)
// * after the executor was stopped in between: the coroutine must be handed to e, dropped there, completed with StopError
//   and its frame destroyed — nothing after the co_await runs;
// * after an inline resumption on a foreign thread (the awaited future came from MakeContractOn(e), so the coroutine's
//   executor still is e although it does not run there): On(e) must really bring it back to e;
// * co_return of an lvalue whose copy throws: the exception becomes the coroutine's own Result.
struct ThrowingCopy {
  int v = 0;
  bool armed = false;
  ThrowingCopy() = default;
  ThrowingCopy(int x, bool a) : v{x}, armed{a} {
  }
  ThrowingCopy(ThrowingCopy&& o) noexcept : v{o.v}, armed{o.armed} {
  }
  ThrowingCopy& operator=(ThrowingCopy&& o) noexcept {
    v = o.v;
    armed = o.armed;
    return *this;
  }
  ThrowingCopy(const ThrowingCopy& o) : v{o.v}, armed{o.armed} {
    if (o.armed) {
      throw MyException{o.v};
    }
  }
  ThrowingCopy& operator=(const ThrowingCopy&) = default;
};

void RebindCase(Ctx& ctx) {
  ResetTags();
  int variant = static_cast<int>(ctx.rng.Below(3));  // 0 stop-then-rebind, 1 foreign-resume-then-On(same), 2 throwing co_return copy
  int how = static_cast<int>(ctx.rng.Below(3));      // 0 On(e), 1 Yield(), 2 kYield
  int yields_before = static_cast<int>(ctx.rng.Below(3));
  bool task_kind = ctx.rng.Coin();
  int code = static_cast<int>(ctx.rng.In(1, 1000));
  u32 jit = ctx.rng.Below(8);
  auto pool = yaclib::MakeFairThreadPool(1);
  TagExec own{1, *pool};
  std::atomic<int> after{0}, bad_tag{0}, seen_tag{-9}, locals_alive{0};
  struct Local {
    std::atomic<int>& n;
    explicit Local(std::atomic<int>& c) : n{c} {
      n.fetch_add(1, kRlx);
    }
    ~Local() {
      n.fetch_sub(1, kRlx);
    }
  };
  if (variant == 0) {
    ctx.Note("coroutine bound to e, e stopped, then %s: must be dropped by e (StopError, frame destroyed); %d yields before; %s",
             how == 0 ? "On(e) again" : how == 1 ? "Yield()" : "kYield", yields_before, task_kind ? "Task" : "Future");
    int state = -9, errcode = 0;
    {
      auto fbody = [&]() -> yaclib::Future<int, MyError> {
        Local l{locals_alive};
        co_await yaclib::On(own);
        for (int i = 0; i < yields_before; ++i) {
          co_await yaclib::Yield();
        }
        pool->Stop();
        if (how == 0) {
          co_await yaclib::On(own);
        } else if (how == 1) {
          co_await yaclib::Yield();
        } else {
          co_await yaclib::kYield;
        }
        after.fetch_add(1, kRlx);
        co_return code;
      };
      auto tbody = [&]() -> yaclib::Task<int, MyError> {
        Local l{locals_alive};
        co_await yaclib::On(own);
        for (int i = 0; i < yields_before; ++i) {
          co_await yaclib::Yield();
        }
        pool->Stop();
        if (how == 0) {
          co_await yaclib::On(own);
        } else if (how == 1) {
          co_await yaclib::Yield();
        } else {
          co_await yaclib::kYield;
        }
        after.fetch_add(1, kRlx);
        co_return code;
      };
      yaclib::Future<int, MyError> f = task_kind ? tbody().ToFuture() : fbody();
      yaclib::Wait(f);
      auto r = std::move(f).Get();
      state = static_cast<int>(r.State());
      if (r.State() == yaclib::ResultState::Error) {
        errcode = std::as_const(r).Error().code;
      }
    }
    pool->Wait();
    ctx.SetNontrivial(true);
    ctx.Observe(static_cast<u64>(how * 8 + yields_before * 2 + (task_kind ? 1 : 0)));
    ctx.Check(after.load(kRlx) == 0, "stopped-executor-runs-nothing", "C13,C05",
              "the body after a co_await that hands the coroutine to its own, meanwhile stopped, executor ran %d times", after.load(kRlx));
    ctx.Check(state == 2 && errcode == -1, "stopped-executor-gives-StopError", "C13,C05",
              "the coroutine's result is state %d (error code %d), expected StopError", state, errcode);
    ctx.Check(locals_alive.load(kRlx) == 0, "frame-destroyed", "C13,C03", "%d coroutine frame locals are still alive after the result was read",
              locals_alive.load(kRlx));
    return;
  }
  if (variant == 1) {
    ctx.Note("coroutine bound to e resumed inline by a foreign thread (future from MakeContractOn(e)), then On(e): must run on e; %s",
             task_kind ? "Task" : "Future");
    int got = -9;
    {
      auto [cf, cp] = yaclib::MakeContractOn<int, MyError>(own);
      auto src = std::move(cf).On(nullptr);
      auto fbody = [&]() -> yaclib::Future<int, MyError> {
        Local l{locals_alive};
        co_await yaclib::On(own);
        co_await yaclib::Await(src);
        seen_tag.store(CurTag(), kRlx);
        co_await yaclib::On(own);
        if (CurTag() != 1) {
          bad_tag.fetch_add(1, kRlx);
        }
        if (&co_await yaclib::CurrentExecutor() != static_cast<yaclib::IExecutor*>(&own)) {
          bad_tag.fetch_add(1, kRlx);
        }
        after.fetch_add(1, kRlx);
        co_return std::as_const(src).Touch().Ok() + 1;
      };
      auto tbody = [&]() -> yaclib::Task<int, MyError> {
        Local l{locals_alive};
        co_await yaclib::On(own);
        co_await yaclib::Await(src);
        seen_tag.store(CurTag(), kRlx);
        co_await yaclib::On(own);
        if (CurTag() != 1) {
          bad_tag.fetch_add(1, kRlx);
        }
        if (&co_await yaclib::CurrentExecutor() != static_cast<yaclib::IExecutor*>(&own)) {
          bad_tag.fetch_add(1, kRlx);
        }
        after.fetch_add(1, kRlx);
        co_return std::as_const(src).Touch().Ok() + 1;
      };
      yaclib_std::thread producer([&] {
        Jitter(jit);
        std::move(cp).Set(code);
      });
      yaclib::Future<int, MyError> f = task_kind ? tbody().ToFuture() : fbody();
      producer.join();
      yaclib::Wait(f);
      auto r = std::move(f).Get();
      got = r.State() == yaclib::ResultState::Value ? std::as_const(r).Value() : -1;
    }
    pool->Stop();
    pool->Wait();
    ctx.SetNontrivial(true);
    ctx.Observe(static_cast<u64>(100 + seen_tag.load(kRlx) * 2 + (task_kind ? 1 : 0)));
    ctx.Class(seen_tag.load(kRlx) == 1 ? "resumed-on-own" : "resumed-on-foreign-thread");
    ctx.Check(bad_tag.load(kRlx) == 0, "resumed-on-executor", "C13,C05",
              "after On(e) the coroutine did not run on e / CurrentExecutor() is not e (%d observations; before On(e) it ran with tag %d)",
              bad_tag.load(kRlx), seen_tag.load(kRlx));
    ctx.Check(got == code + 1 && after.load(kRlx) == 1, "awaited-outcome", "C13", "the coroutine delivered %d (body ran %d times), expected %d", got,
              after.load(kRlx), code + 1);
    ctx.Check(locals_alive.load(kRlx) == 0, "frame-destroyed", "C13,C03", "%d coroutine frame locals are still alive", locals_alive.load(kRlx));
    return;
  }
  bool armed = ctx.rng.Below(4) != 0;
  ctx.Note("co_return of an lvalue reference whose copy constructor %s; %s", armed ? "throws" : "does not throw", task_kind ? "Task" : "Future");
  int state = -9, got = -9;
  {
    ThrowingCopy value{code, armed};
    auto fbody = [&](const ThrowingCopy& ref) -> yaclib::Future<ThrowingCopy, MyError> {
      Local l{locals_alive};
      co_await yaclib::On(own);
      co_return ref;
    };
    auto tbody = [&](const ThrowingCopy& ref) -> yaclib::Task<ThrowingCopy, MyError> {
      Local l{locals_alive};
      co_await yaclib::On(own);
      co_return ref;
    };
    yaclib::Future<ThrowingCopy, MyError> f = task_kind ? tbody(value).ToFuture() : fbody(value);
    yaclib::Wait(f);
    auto r = std::move(f).Get();
    state = static_cast<int>(r.State());
    if (r.State() == yaclib::ResultState::Value) {
      got = std::as_const(r).Value().v;
    } else if (r.State() == yaclib::ResultState::Exception) {
      try {
        std::rethrow_exception(std::as_const(r).Exception());
      } catch (const MyException& e) {
        got = e.code;
      } catch (...) {
        got = -2;
      }
    }
  }
  pool->Stop();
  pool->Wait();
  ctx.SetNontrivial(true);
  ctx.Observe(static_cast<u64>(200 + (armed ? 2 : 0) + (task_kind ? 1 : 0)));
  ctx.Check(state == (armed ? 1 : 0) && got == code, "escaping-exception-becomes-result", "C13",
            "co_return of an lvalue (copy %s): result state %d payload %d, expected state %d payload %d", armed ? "throws" : "ok", state, got, armed ? 1 : 0,
            code);
  ctx.Check(locals_alive.load(kRlx) == 0, "frame-destroyed", "C13,C03", "%d coroutine frame locals are still alive", locals_alive.load(kRlx));
}
}  // namespace

VF_CELL(co_future, "future-coroutine/live", "C13,C03,C04,C06", 30) {
  CoroCase(ctx, cFuture, false);
}
VF_CELL(co_task, "task-coroutine/live", "C13,C03,C12", 14) {
  CoroCase(ctx, cTask, false);
}
VF_CELL(co_shared, "shared-future-coroutine/live", "C13,C03,C06", 14) {
  CoroCase(ctx, cShared, false);
}
VF_CELL(co_future_stopped, "future-coroutine/stopped-target", "C13,C03,C05", 14) {
  CoroCase(ctx, cFuture, true);
}
VF_CELL(co_task_stopped, "task-coroutine/stopped-target", "C13,C03,C05", 6) {
  CoroCase(ctx, cTask, true);
}
VF_CELL(co_shared_stopped, "shared-future-coroutine/stopped-target", "C13,C03,C05", 6) {
  CoroCase(ctx, cShared, true);
}
VF_CELL(co_returned_task, "task-coroutine/returned-from-step", "C13,C12,C03,C05", 6) {
  ReturnedTaskCase(ctx);
}
VF_CELL(co_task_overwrite, "lazy-task-overwritten", "C12,C03", 4) {
  TaskOverwriteCase(ctx);
}
VF_CELL(co_await_task, "await-lazy-task", "C13,C12,C03,C05", 12) {
  AwaitTaskCase(ctx);
}
VF_CELL(co_rebind, "rebind-same-executor", "C13,C05,C03", 6) {
  RebindCase(ctx);
}

int main(int argc, char** argv) {
  return vf::Main(argc, argv, "coro");
}
