// fam_exec — C05 (Call xor Drop), C07 (Strand), C08 (FairThreadPool); also feeds C03/C04.
#include "vf_exec.hpp"

#include <yaclib/async/run.hpp>
#include <yaclib/exe/submit.hpp>
#include <yaclib_std/condition_variable>
#include <yaclib_std/mutex>

#include <deque>

using namespace vf;

namespace {

inline void Jitter(u32 n) {
#if VF_FIBER
  for (u32 i = 0; i < n; ++i) {
    yaclib_std::this_thread::yield();
  }
#else
  for (volatile u32 i = 0; i < n * 40; ++i) {
  }
#endif
}

struct World;

struct MJob final : yaclib::Job {
  World* w = nullptr;
  int submitter = -1;  // -1: child job
  int seq = 0;
  int id = 0;
  int payload = 0;      // plain, written by the submitting thread right before Submit (C04: Submit -> job edge)
  std::atomic<int> bad_payload{0};
  u32 work = 0;         // yields inside Call
  MJob* child = nullptr;
  yaclib::IExecutor* child_to = nullptr;
  // boundary stamps
  u64 sub_call = 0, sub_ret = 0;
  u64 start = 0, end = 0, dropped_at = 0;
  std::atomic<int> calls{0};
  std::atomic<int> drops{0};
  bool submitted = false;
  void Call() noexcept final;
  void Drop() noexcept final;
};

struct World {
  Ctx* ctx = nullptr;
  std::atomic<int> inside{0};
  std::atomic<int> max_inside{0};
  long plain_counter = 0;  // C04: only ordered by the executor's own happens-before (strand cells)
  u64 stop2_call = 0, stop2_ret = 0;  // Stop() issued after SoftStop()
  std::atomic<int> alive_after_stop{0};
  std::atomic<int> drop_during_call{0};
  bool serial = false;      // strand: jobs must not overlap
  std::atomic<u64> wait_returned{0};
  std::atomic<int> after_wait{0};
  std::atomic<u32> nlog{0};
  MJob* log[256];
  std::deque<MJob> jobs;
};

void MJob::Call() noexcept {
  start = Stamp();
  VF_R(payload, "C04");
  if (payload != id + 1) {
    bad_payload.fetch_add(1, kRlx);
  }
  if (w->wait_returned.load(kRlx) != 0) {
    w->after_wait.fetch_add(1, kRlx);
  }
  int in = w->inside.fetch_add(1, kRlx) + 1;
  int mx = w->max_inside.load(kRlx);
  while (in > mx && !w->max_inside.compare_exchange_weak(mx, in, kRlx)) {
  }
  if (w->serial) {
    VF_W(w->plain_counter, "C04,C07");
    w->plain_counter++;  // plain read-modify-write
  }
  u32 pos = w->nlog.fetch_add(1, kRlx);
  if (pos < 256) {
    w->log[pos] = this;
  }
  Jitter(work);
  if (child != nullptr) {
    child->submitted = true;
    VF_W(child->payload, "C04");
    child->payload = child->id + 1;
    child->sub_call = Stamp();
    child_to->Submit(*child);
    child->sub_ret = Stamp();
  }
  w->inside.fetch_sub(1, kRlx);
  calls.fetch_add(1, kRlx);
  end = Stamp();
  if (w->wait_returned.load(kRlx) != 0) {
    w->after_wait.fetch_add(1, kRlx);
  }
}

void MJob::Drop() noexcept {
  dropped_at = Stamp();
  drops.fetch_add(1, kRlx);
  if (w->serial && w->inside.load(kRlx) != 0) {
    // a strand job is being Called right now: finishing another job of the same strand (here by Drop) at the same
    // time means two jobs of the strand are processed concurrently
    w->drop_during_call.fetch_add(1, kRlx);
  }
  if (child != nullptr) {
    // what a dropped continuation does: it runs inside Drop(), asks the executor whether it is alive and hands the
    // next step to it (which is refused and dropped in turn); the executor must be re-entrant here
    (void)child_to->Alive();
    child->submitted = true;
    VF_W(child->payload, "C04");
    child->payload = child->id + 1;
    child->sub_call = Stamp();
    child_to->Submit(*child);
    child->sub_ret = Stamp();
  }
}

enum StopKind { kNoStop = 0, kStop = 1, kSoftStop = 2, kHardStop = 3 };
const char* const kStopName[] = {"no-stop", "Stop", "SoftStop", "HardStop"};

struct Plan {
  int submitters;
  int per;
  int workers;
  int stop_kind;
  int soft_repeat = 1;        // SoftStop: how many times it is called (a repeated request must change nothing)
  bool soft_then_stop = false;  // SoftStop: followed by an ordinary Stop() from the same thread
  bool soft_no_final = false;   // SoftStop: nobody calls Stop() afterwards, the pool has to stop by itself once idle
  u32 stop_delay;
  u32 sub_jit[4];
  bool children;
};

Plan MakePlan(Ctx& ctx, bool allow_stop) {
  Plan p;
  p.submitters = static_cast<int>(ctx.rng.In(1, 4));
  p.per = static_cast<int>(ctx.rng.In(1, 5));
  p.workers = static_cast<int>(ctx.rng.In(1, 3));
  p.stop_kind = allow_stop ? static_cast<int>(ctx.rng.Below(4)) : kNoStop;
  p.stop_delay = ctx.rng.Below(12);
  p.soft_repeat = static_cast<int>(ctx.rng.In(1, 3));
  p.soft_then_stop = ctx.rng.Below(4) == 0;
  p.soft_no_final = !p.soft_then_stop && ctx.rng.Coin();
  for (auto& j : p.sub_jit) {
    j = ctx.rng.Below(4);
  }
  p.children = ctx.rng.Below(3) == 0;
  return p;
}

void BuildJobs(Ctx& ctx, World& w, const Plan& p, yaclib::IExecutor& target) {
  int id = 0;
  for (int s = 0; s < p.submitters; ++s) {
    for (int k = 0; k < p.per; ++k) {
      auto& j = w.jobs.emplace_back();
      j.w = &w;
      j.submitter = s;
      j.seq = k;
      j.id = id++;
      j.work = ctx.rng.Below(3);
    }
  }
  std::size_t n = w.jobs.size();
  if (p.children) {
    for (std::size_t i = 0; i < n; ++i) {
      if (ctx.rng.Below(3) == 0) {
        auto& c = w.jobs.emplace_back();
        c.w = &w;
        c.submitter = -1;
        c.id = id++;
        c.work = ctx.rng.Below(2);
        w.jobs[i].child = &c;
        w.jobs[i].child_to = &target;
      }
    }
  }
}

void RunSubmitters(World& w, const Plan& p, yaclib::IExecutor& target, yaclib::FairThreadPool* pool, u64& stop_call,
                   u64& stop_ret) {
  std::vector<yaclib_std::thread> ts;
  ts.reserve(static_cast<std::size_t>(p.submitters) + 1);
  for (int s = 0; s < p.submitters; ++s) {
    ts.emplace_back([&, s] {
      Jitter(p.sub_jit[s]);
      for (auto& j : w.jobs) {
        if (j.submitter == s) {
          j.submitted = true;
          VF_W(j.payload, "C04");
          j.payload = j.id + 1;
          j.sub_call = Stamp();
          target.Submit(j);
          j.sub_ret = Stamp();
        }
      }
    });
  }
  if (pool != nullptr && p.stop_kind != kNoStop) {
    ts.emplace_back([&] {
      Jitter(p.stop_delay);
      stop_call = Stamp();
      if (p.stop_kind == kStop) {
        pool->Stop();
      } else if (p.stop_kind == kSoftStop) {
        for (int r = 0; r < p.soft_repeat; ++r) {
          pool->SoftStop();
          Jitter(1);
        }
        if (p.soft_then_stop) {
          w.stop2_call = Stamp();
          pool->Stop();
          if (pool->Alive()) {
            w.alive_after_stop.fetch_add(1, kRlx);
          }
          w.stop2_ret = Stamp();
        }
      } else {
        pool->HardStop();
      }
      stop_ret = Stamp();
    });
  }
  for (auto& t : ts) {
    t.join();
  }
}

// shared oracle: conservation + drop justification
void CheckConservation(Ctx& ctx, World& w, bool may_drop, u64 stop_call, const char* props) {
  int submitted = 0, calls = 0, drops = 0;
  for (auto& j : w.jobs) {
    if (!j.submitted) {
      continue;
    }
    ++submitted;
    int c = j.calls.load(kRlx), d = j.drops.load(kRlx);
    calls += c;
    drops += d;
    ctx.Check(c + d == 1, "call-xor-drop", props, "job %d (submitter %d seq %d): Call x%d, Drop x%d", j.id, j.submitter,
              j.seq, c, d);
    ctx.Check(j.bad_payload.load(kRlx) == 0, "submit-visibility", "C04,C05",
              "job %d did not see what its submitter wrote right before Submit", j.id);
    if (d != 0) {
      ctx.Check(may_drop && stop_call != 0 && j.dropped_at > stop_call, "drop-only-when-stopped", props,
                "job %d dropped at t=%llu although the executor was not stopped before (stop began t=%llu)", j.id,
                (unsigned long long)j.dropped_at, (unsigned long long)stop_call);
    }
  }
  ctx.Observe(static_cast<u64>(calls) * 131 + static_cast<u64>(drops));
  ctx.Note("submitted=%d called=%d dropped=%d max_inside=%d", submitted, calls, drops, w.max_inside.load(kRlx));
  if (drops != 0) {
    ctx.Class(calls != 0 ? "some-dropped" : "all-dropped");
  } else {
    ctx.Class("all-called");
  }
}

// jobs a, b both called and Submit(a) returned before Submit(b) began  =>  a starts before b
void CheckOrder(Ctx& ctx, World& w, const char* oracle, const char* props) {
  u32 n = w.nlog.load(kRlx);
  if (n > 256) {
    n = 256;
  }
  for (u32 i = 0; i < n; ++i) {
    for (u32 k = i + 1; k < n; ++k) {
      MJob* first = w.log[i];
      MJob* second = w.log[k];
      // second ran after first although second's submission strictly preceded first's
      if (second->sub_ret != 0 && second->sub_ret < first->sub_call) {
        ctx.Fail(oracle, props, "job %d (submit returned t=%llu) ran after job %d (submit began t=%llu)", second->id,
                 (unsigned long long)second->sub_ret, first->id, (unsigned long long)first->sub_call);
        return;
      }
    }
  }
  ctx.events++;
}

// ------------------------------------------------------------------------------------------------
// C07 strand

enum BaseKind { bPool, bManual, bInline, bStoppedInline };

void StrandCase(Ctx& ctx, int base_kind, bool over_strand) {
  Plan p = MakePlan(ctx, base_kind == bPool);
  World w;
  w.ctx = &ctx;
  w.serial = true;
  yaclib::IntrusivePtr<yaclib::FairThreadPool> pool;
  yaclib::IExecutorPtr manual;
  yaclib::IExecutorPtr base;
  if (base_kind == bPool) {
    pool = yaclib::MakeFairThreadPool(static_cast<std::uint64_t>(p.workers));
    base = pool;
  } else if (base_kind == bManual) {
    manual = yaclib::MakeManual();
    base = manual;
  } else if (base_kind == bInline) {
    base = yaclib::IExecutorPtr{yaclib::NoRefTag{}, &yaclib::MakeInline()};
  } else {
    base = yaclib::IExecutorPtr{yaclib::NoRefTag{}, &yaclib::MakeInline(yaclib::StopTag{})};
  }
  yaclib::IExecutorPtr strand = yaclib::MakeStrand(base);
  if (over_strand) {
    strand = yaclib::MakeStrand(strand);
  }
  BuildJobs(ctx, w, p, *strand);
  ctx.Note("strand over %s%s, %d submitters x %d jobs, workers=%d, %s after %u yields; ",
           base_kind == bPool ? "pool" : base_kind == bManual ? "manual" : base_kind == bInline ? "inline" : "stopped-inline",
           over_strand ? " (strand over strand)" : "", p.submitters, p.per, p.workers, kStopName[p.stop_kind],
           p.stop_delay);
  u64 stop_call = 0, stop_ret = 0;
  if (base_kind == bStoppedInline) {
    stop_call = 1;  // stopped from the beginning
  }
  std::atomic<bool> draining{true};
  yaclib_std::thread* drainer = nullptr;
  yaclib_std::thread drainer_storage;
  if (base_kind == bManual && VF_FIBER) {
    // (fiber mode only: ManualExecutor is not thread-safe, fibers are only pre-empted at yaclib_std operations)
    // a third party drains the manual executor concurrently with the submitters
    drainer_storage = yaclib_std::thread([&] {
      while (draining.load(kRlx)) {
        (void)static_cast<yaclib::ManualExecutor&>(*manual).Drain();
        Jitter(1);
      }
    });
    drainer = &drainer_storage;
  }
  RunSubmitters(w, p, *strand, pool.Get(), stop_call, stop_ret);
  if (drainer != nullptr) {
    draining.store(false, kRlx);
    drainer->join();
  }
  if (base_kind == bManual) {
    while (static_cast<yaclib::ManualExecutor&>(*manual).Drain() != 0) {
    }
  }
  if (pool) {
    if (stop_call == 0) {
      stop_call = Stamp();
    }
    pool->Stop();
    pool->Wait();
    w.wait_returned.store(Stamp(), kRlx);
  }
  ctx.SetNontrivial(w.nlog.load(kRlx) >= 2 && p.submitters >= 2);
  // oracles
  ctx.Check(w.max_inside.load(kRlx) <= 1, "mutual-exclusion", "C07", "%d strand jobs were running at the same time",
            w.max_inside.load(kRlx));
  CheckConservation(ctx, w, base_kind == bPool || base_kind == bStoppedInline, stop_call, "C07,C05");
  // per-submitter program order and cross-submitter "took effect" order
  u32 n = w.nlog.load(kRlx);
  int last_seq[4] = {-1, -1, -1, -1};
  for (u32 i = 0; i < n && i < 256; ++i) {
    MJob* j = w.log[i];
    if (j->submitter >= 0) {
      ctx.Check(j->seq > last_seq[j->submitter], "submission-order", "C07",
                "submitter %d: job seq %d ran after seq %d", j->submitter, j->seq, last_seq[j->submitter]);
      last_seq[j->submitter] = j->seq;
    }
  }
  ctx.Check(w.drop_during_call.load(kRlx) == 0, "drop-overlaps-call", "C07",
            "%d times a job of the strand was Dropped while another job of the same strand was inside Call()",
            w.drop_during_call.load(kRlx));
  CheckOrder(ctx, w, "submission-order", "C07");
  long called = 0;
  for (auto& j : w.jobs) {
    called += j.calls.load(kRlx);
  }
  ctx.Check(w.plain_counter == called, "plain-counter", "C07,C04",
            "plain counter incremented inside strand jobs is %ld after %ld calls (lost update)", w.plain_counter, called);
  ctx.Check(w.after_wait.load(kRlx) == 0, "no-call-after-wait", "C08", "a job ran after FairThreadPool::Wait returned");
}

// ------------------------------------------------------------------------------------------------
// C08 pool

void PoolCase(Ctx& ctx, int force_workers, int force_stop) {
  Plan p = MakePlan(ctx, true);
  if (force_workers > 0) {
    p.workers = force_workers;
  }
  if (force_stop >= 0) {
    p.stop_kind = force_stop;
  }
  World w;
  w.ctx = &ctx;
  auto pool = yaclib::MakeFairThreadPool(static_cast<std::uint64_t>(p.workers));
  BuildJobs(ctx, w, p, *pool);
  ctx.Note("pool workers=%d, %d submitters x %d jobs, %s after %u yields; ", p.workers, p.submitters, p.per,
           kStopName[p.stop_kind], p.stop_delay);
  ctx.Class(kStopName[p.stop_kind]);
  u64 stop_call = 0, stop_ret = 0;
  RunSubmitters(w, p, *pool, pool.Get(), stop_call, stop_ret);
  u64 final_stop = 0;
  bool self_stopping = p.stop_kind == kSoftStop && p.soft_no_final;
  if (p.stop_kind == kSoftStop) {
    ctx.Note("(SoftStop x%d%s%s) ", p.soft_repeat, p.soft_then_stop ? ", then Stop" : "",
             self_stopping ? ", no Stop afterwards: the pool must stop by itself once idle" : "");
  }
  if ((p.stop_kind == kNoStop || p.stop_kind == kSoftStop) && !self_stopping) {
    // SoftStop may already have stopped the pool; either way this makes Wait() terminate
    final_stop = Stamp();
    pool->Stop();
  } else if (self_stopping) {
    final_stop = ~u64{0};  // never: a pool that does not stop by itself leaves Wait() parked (deadlock verdict)
  }
  if (w.stop2_call != 0 && w.stop2_call < final_stop) {
    final_stop = w.stop2_call;
  }
  pool->Wait();
  w.wait_returned.store(Stamp(), kRlx);
  Jitter(3);  // give a stray worker the chance to run something after Wait
  ctx.SetNontrivial(w.jobs.size() >= 2);

  u64 first_stop = stop_call != 0 ? stop_call : final_stop;
  CheckConservation(ctx, w, true, first_stop, "C08,C05");
  for (auto& j : w.jobs) {
    if (!j.submitted || j.drops.load(kRlx) == 0) {
      continue;
    }
    // accepted-before-stop must run under Stop and SoftStop
    if (p.stop_kind == kStop || p.stop_kind == kNoStop) {
      ctx.Check(!(j.sub_ret < first_stop), "accepted-jobs-run", "C08",
                "job %d: Submit returned (t=%llu) before Stop began (t=%llu) but the job was dropped", j.id,
                (unsigned long long)j.sub_ret, (unsigned long long)first_stop);
    }
    if (p.stop_kind == kSoftStop) {
      u64 real_stop = final_stop;  // the explicit Stop after the submitters finished
      // dropped before any Stop was requested at all?
      ctx.Check(j.dropped_at > stop_call, "accepted-jobs-run", "C08", "job %d dropped before SoftStop was even called",
                j.id);
      // SoftStop can stop the pool only at a moment with no job queued or running.  If some accepted job was surely in
      // flight (Submit returned .. Call not yet begun/ended) during the whole interval [SoftStop call, this Submit
      // return] and the explicit Stop came later, the pool cannot have been stopped yet.
      // a job submitted from inside a running job of the pool: the pool has a running job at that very moment, so a
      // SoftStop cannot have taken effect yet
      if (j.submitter == -1 && j.sub_ret < real_stop) {
        for (auto& parent : w.jobs) {
          if (parent.child == &j && parent.calls.load(kRlx) == 1) {
            ctx.Fail("softstop-premature", "C08",
                     "job %d, submitted from inside the running job %d (Submit returned t=%llu, before the explicit Stop "
                     "t=%llu), was dropped: SoftStop stopped the pool while a job was running",
                     j.id, parent.id, (unsigned long long)j.sub_ret, (unsigned long long)real_stop);
          }
        }
      }
      if (j.sub_ret < real_stop) {
        for (auto& o : w.jobs) {
          if (&o != &j && o.submitted && o.calls.load(kRlx) == 1 && o.sub_ret < stop_call && o.end > j.sub_ret) {
            ctx.Fail("softstop-premature", "C08",
                     "job %d was dropped (Submit returned t=%llu) while job %d was still queued/running over the whole "
                     "interval since SoftStop (t=%llu): the pool stopped with work in flight",
                     j.id, (unsigned long long)j.sub_ret, o.id, (unsigned long long)stop_call);
            break;
          }
        }
      }
    }
  }
  ctx.Check(w.alive_after_stop.load(kRlx) == 0, "alive-after-stop", "C08",
            "Alive() is still true right after Stop() returned (a SoftStop had been requested before)");
  if (w.stop2_ret != 0) {
    for (auto& j : w.jobs) {
      if (j.submitted && j.sub_call > w.stop2_ret) {
        ctx.Check(j.calls.load(kRlx) == 0, "accepted-after-stop", "C08",
                  "job %d was submitted (t=%llu) after Stop() had returned (t=%llu) and was Called instead of Dropped", j.id,
                  (unsigned long long)j.sub_call, (unsigned long long)w.stop2_ret);
      }
    }
  }
  ctx.Check(w.after_wait.load(kRlx) == 0, "no-call-after-wait", "C08",
            "%d job Call boundaries observed after FairThreadPool::Wait returned", w.after_wait.load(kRlx));
  for (auto& j : w.jobs) {
    if (j.calls.load(kRlx) != 0) {
      ctx.Check(j.end < w.wait_returned.load(kRlx), "no-call-after-wait", "C08", "job %d ended after Wait returned",
                j.id);
    }
  }
  if (p.workers == 1) {
    CheckOrder(ctx, w, "single-worker-fifo", "C08");
    int last_seq[4] = {-1, -1, -1, -1};
    u32 n = w.nlog.load(kRlx);
    for (u32 i = 0; i < n && i < 256; ++i) {
      MJob* j = w.log[i];
      if (j->submitter >= 0) {
        ctx.Check(j->seq > last_seq[j->submitter], "single-worker-fifo", "C08",
                  "one worker: submitter %d job seq %d started after seq %d", j->submitter, j->seq,
                  last_seq[j->submitter]);
        last_seq[j->submitter] = j->seq;
      }
    }
  }
}

// ------------------------------------------------------------------------------------------------
// C05 simple executors

void SimpleExecCase(Ctx& ctx, int kind) {
  World w;
  w.ctx = &ctx;
  Plan p = MakePlan(ctx, false);
  p.children = ctx.rng.Coin();
  yaclib::IExecutorPtr manual;
  yaclib::IExecutor* e = nullptr;
  bool stopped = false;
  if (kind == 0) {
    e = &yaclib::MakeInline();
  } else if (kind == 1) {
    e = &yaclib::MakeInline(yaclib::StopTag{});
    stopped = true;
  } else {
    manual = yaclib::MakeManual();
    e = manual.Get();
  }
  BuildJobs(ctx, w, p, *e);
  ctx.Note("executor=%s alive=%d; ", kind == 0 ? "inline" : kind == 1 ? "stopped-inline" : "manual", (int)e->Alive());
  ctx.Check(e->Alive() == !stopped, "alive", "C05", "Alive() == %d on a %s executor", (int)e->Alive(),
            stopped ? "stopped" : "live");
  // single thread per executor here: Inline runs in the submitter, Manual is drained by the same thread
  for (auto& j : w.jobs) {
    if (j.submitter >= 0) {
      j.submitted = true;
      VF_W(j.payload, "C04");
      j.payload = j.id + 1;
      j.sub_call = Stamp();
      e->Submit(j);
      j.sub_ret = Stamp();
      if (kind == 0) {
        ctx.Check(j.calls.load(kRlx) == 1, "inline-runs-in-submit", "C05", "Inline::Submit returned before the job ran");
      }
      if (kind == 2 && ctx.rng.Below(3) == 0) {
        (void)static_cast<yaclib::ManualExecutor&>(*manual).Drain();
      }
    }
  }
  if (kind == 2) {
    while (static_cast<yaclib::ManualExecutor&>(*manual).Drain() != 0) {
    }
  }
  ctx.SetNontrivial(true);
  CheckConservation(ctx, w, stopped, stopped ? 1 : 0, "C05");
  if (kind == 2) {
    CheckOrder(ctx, w, "manual-fifo", "C05");
  }
}

// yaclib::Submit(e, func): functor destroyed exactly once whether called or dropped
void SubmitFuncCase(Ctx& ctx) {
  int kind = static_cast<int>(ctx.rng.Below(3));
  int n = static_cast<int>(ctx.rng.In(1, 6));
  std::atomic<int> ran{0};
  yaclib::IntrusivePtr<yaclib::FairThreadPool> pool;
  yaclib::IExecutor* e;
  if (kind == 0) {
    e = &yaclib::MakeInline(yaclib::StopTag{});
  } else if (kind == 1) {
    pool = yaclib::MakeFairThreadPool(2);
    e = pool.Get();
  } else {
    pool = yaclib::MakeFairThreadPool(1);
    pool->Stop();
    e = pool.Get();
  }
  for (int i = 0; i < n; ++i) {
    yaclib::Submit(*e, [&ran, t = Tracked{i}] {
      if (t.Fresh()) {
        ran.fetch_add(1, kRlx);
      }
    });
  }
  if (pool) {
    if (ctx.rng.Coin()) {
      pool->HardStop();
    } else {
      pool->Stop();
    }
    pool->Wait();
  }
  ctx.SetNontrivial(true);
  ctx.Note("Submit(func) x%d kind=%d ran=%d", n, kind, ran.load(kRlx));
  if (kind != 1) {
    ctx.Check(ran.load(kRlx) == 0, "stopped-executor-calls", "C05", "a stopped executor ran %d submitted functions",
              ran.load(kRlx));
  }
}

// ------------------------------------------------------------------------------------------------
// pipeline steps queued in a pool that is stopped at a random moment (C03 lifecycle, C05 StopError routing)

void PipelineStopCase(Ctx& ctx) {
  int workers = static_cast<int>(ctx.rng.In(1, 3));
  int len = static_cast<int>(ctx.rng.In(1, 4));
  int stop_kind = static_cast<int>(ctx.rng.In(1, 3));
  u32 stop_delay = ctx.rng.Coin() ? ctx.rng.Below(8) : ctx.rng.Below(40);
  int code = static_cast<int>(ctx.rng.In(1, 100000));
  u32 inline_mask = ctx.rng.Below(16);
  u32 work = ctx.rng.Below(3);
  ctx.Note("pipeline Run(pool).Then x%d on %d workers, %s after %u yields; ", len, workers, kStopName[stop_kind], stop_delay);
  auto pool = yaclib::MakeFairThreadPool(static_cast<std::uint64_t>(workers));
  std::atomic<int> ran[6] = {};
  std::atomic<int> bad_value{0};
  int final_state = -9, final_code = 0;
  {
    auto f0 = yaclib::Run<MyError>(*pool, [&ran, code, cap = Tracked{1}] {
      ran[0].fetch_add(1, kRlx);
      return Tracked{code};
    });
    yaclib::FutureOn<Tracked, MyError> f = std::move(f0);
    for (int i = 1; i <= len; ++i) {
      auto cb = [&ran, &bad_value, i, code, work, cap = Tracked{100 + i}](Tracked v) {
        ran[i].fetch_add(1, kRlx);
        if (!v.Fresh() || v.v != code + i - 1 || !cap.Fresh()) {
          bad_value.fetch_add(1, kRlx);
        }
        Jitter(work);
        return Tracked{v.v + 1};
      };
      if ((inline_mask >> i) & 1U) {
        f = std::move(f).ThenInline(cb);
      } else {
        f = std::move(f).Then(*pool, cb);
      }
    }
    yaclib_std::thread stopper([&] {
      Jitter(stop_delay);
      if (stop_kind == kStop) {
        pool->Stop();
      } else if (stop_kind == kSoftStop) {
        pool->SoftStop();
      } else {
        pool->HardStop();
      }
    });
    yaclib_std::thread consumer([&] {
      auto r = std::move(f).Get();
      final_state = static_cast<int>(r.State());
      if (final_state == 0) {
        final_code = std::as_const(r).Value().Fresh() ? std::as_const(r).Value().v : -2;
      } else if (final_state == 2) {
        final_code = std::as_const(r).Error().code;
      }
    });
    consumer.join();
    stopper.join();
  }
  pool->Stop();
  pool->Wait();
  ctx.SetNontrivial(true);
  int invoked = 0;
  bool prefix = true;
  for (int i = 0; i <= len; ++i) {
    int c = ran[i].load(kRlx);
    ctx.Check(c <= 1, "callback-at-most-once", "C05,C03", "pipeline step %d ran %d times", i, c);
    if (c != 0) {
      prefix = prefix && invoked == i;
      ++invoked;
    }
  }
  ctx.Check(prefix, "value-callback-after-failure", "C05", "a value callback ran after an earlier step had been dropped");
  ctx.Check(bad_value.load(kRlx) == 0, "payload-intact", "C05,C03", "a pipeline step received a wrong or torn value");
  if (invoked == len + 1) {
    ctx.Class("ran-to-completion");
    ctx.Check(final_state == 0 && final_code == code + len, "final-result", "C05",
              "every step ran but the final Result is state=%d code=%d (expected value %d)", final_state, final_code,
              code + len);
  } else {
    ctx.Class("cut-by-stop");
    ctx.Check(final_state == 2 && final_code == -1, "final-result", "C05",
              "a step was dropped by the stopped pool: final Result state=%d code=%d, expected StopError", final_state,
              final_code);
  }
  ctx.Observe(static_cast<u64>(invoked));
}

}  // namespace

VF_CELL(strand_pool, "strand/pool", "C07,C05,C03,C04", 30) {
  StrandCase(ctx, bPool, false);
}
VF_CELL(strand_manual, "strand/manual", "C07,C05,C03,C04", 10) {
  StrandCase(ctx, bManual, false);
}
VF_CELL(strand_inline, "strand/inline", "C07,C05,C03,C04", 6) {
  StrandCase(ctx, bInline, false);
}
VF_CELL(strand_stopped, "strand/stopped-inline", "C07,C05,C03", 3) {
  StrandCase(ctx, bStoppedInline, false);
}
VF_CELL(strand_strand_pool, "strand/strand-over-strand-pool", "C07,C05,C03,C04", 12) {
  StrandCase(ctx, bPool, true);
}
VF_CELL(strand_strand_manual, "strand/strand-over-strand-manual", "C07,C05,C03", 4) {
  StrandCase(ctx, bManual, true);
}

// round 8: a running job submits a child to the same pool and blocks until the child was Called or Dropped, while a
// SoftStop is requested at some moment. With >= 2 workers an accepted child must be picked up by an idle worker (the
// submitter's own worker is busy waiting), so the parent returns, the pool becomes idle and stops by itself.
// A lost wake-up leaves the child queued for ever: parent and Wait() parked at quiescence (deadlock verdict).
struct WaitedChild final : yaclib::Job {
  yaclib_std::mutex* m = nullptr;
  yaclib_std::condition_variable* cv = nullptr;
  bool done = false;
  std::atomic<int> calls{0}, drops{0};
  void Finish() {
    std::lock_guard lock{*m};
    done = true;
    cv->notify_all();
  }
  void Call() noexcept final {
    calls.fetch_add(1, kRlx);
    Finish();
  }
  void Drop() noexcept final {
    drops.fetch_add(1, kRlx);
    Finish();
  }
};
struct WaitingParent final : yaclib::Job {
  yaclib::IExecutor* pool = nullptr;
  WaitedChild* child = nullptr;
  u32 work = 0;
  std::atomic<int> calls{0}, drops{0}, returned{0};
  void Call() noexcept final {
    calls.fetch_add(1, kRlx);
    Jitter(work);
    pool->Submit(*child);
    {
      std::unique_lock lock{*child->m};
      while (!child->done) {
        child->cv->wait(lock);
      }
    }
    returned.fetch_add(1, kRlx);
  }
  void Drop() noexcept final {
    drops.fetch_add(1, kRlx);
  }
};

void SoftStopChildAwaitedCase(Ctx& ctx) {
  int workers = static_cast<int>(ctx.rng.In(2, 4));
  u32 before_submit = ctx.rng.Below(6), before_stop = ctx.rng.Below(8);
  int stop_kind = static_cast<int>(ctx.rng.Below(4));  // 0,1 SoftStop, 2 Stop, 3 SoftStop then Stop
  ctx.Note("pool workers=%d: a running job submits a child and waits for it; %s after %u yields (parent submitted after %u); ", workers,
           stop_kind <= 1 ? "SoftStop" : stop_kind == 2 ? "Stop" : "SoftStop, then Stop", before_stop, before_submit);
  yaclib_std::mutex m;
  yaclib_std::condition_variable cv;
  WaitedChild child;
  child.m = &m;
  child.cv = &cv;
  WaitingParent parent;
  parent.child = &child;
  parent.work = ctx.rng.Below(4);
  {
    auto pool = yaclib::MakeFairThreadPool(static_cast<std::uint64_t>(workers));
    parent.pool = pool.Get();
    Jitter(before_submit);
    pool->Submit(parent);
    Jitter(before_stop);
    if (stop_kind != 2) {
      pool->SoftStop();
    }
    if (stop_kind >= 2) {
      pool->Stop();
    }
    pool->Wait();
  }
  ctx.SetNontrivial(true);
  int pc = parent.calls.load(kRlx), pd = parent.drops.load(kRlx), cc = child.calls.load(kRlx), cd = child.drops.load(kRlx);
  ctx.Observe(static_cast<u64>(pc * 8 + pd * 4 + cc * 2 + cd));
  ctx.Class(cc != 0 ? "child-called" : cd != 0 ? "child-dropped" : "parent-dropped");
  ctx.Check(pc + pd == 1, "call-xor-drop", "C08,C05", "the parent job was Called %d and Dropped %d times", pc, pd);
  ctx.Check(pc == 0 || cc + cd == 1, "call-xor-drop", "C08,C05", "the child job submitted by the running parent was Called %d and Dropped %d times", cc, cd);
  ctx.Check(pc == 0 || parent.returned.load(kRlx) == 1, "awaited-child-runs", "C08", "the parent never saw its child finished");
  // the parent was accepted before any stop request and is running (or queued) when the child arrives: neither Stop nor
  // SoftStop may refuse the child of a job that was accepted before them... only HardStop could, and it is not used here
  if (stop_kind != 2 && stop_kind != 3) {
    ctx.Check(pc == 0 || cd == 0, "softstop-premature", "C08",
              "the child submitted from inside the running parent was dropped: SoftStop stopped the pool while a job was running");
  }
}

VF_CELL(pool_any, "pool/any", "C08,C05,C03,C04", 30) {
  PoolCase(ctx, 0, -1);
}
VF_CELL(pool_one, "pool/one-worker", "C08,C05,C03", 12) {
  PoolCase(ctx, 1, -1);
}
VF_CELL(pool_soft, "pool/softstop", "C08,C05,C03", 14) {
  PoolCase(ctx, 0, kSoftStop);
}
VF_CELL(pool_child_awaited, "pool/softstop-child-awaited", "C08,C05,C03", 8) {
  SoftStopChildAwaitedCase(ctx);
}
VF_CELL(pool_hard, "pool/hardstop", "C08,C05,C03", 10) {
  PoolCase(ctx, 0, kHardStop);
}
VF_CELL(pipe_stop, "pipeline/pool-stopped", "C05,C03,C04", 16) {
  PipelineStopCase(ctx);
}
VF_CELL(exec_inline, "simple/inline", "C05", 2) {
  SimpleExecCase(ctx, 0);
}
VF_CELL(exec_stopped, "simple/stopped-inline", "C05", 2) {
  SimpleExecCase(ctx, 1);
}
VF_CELL(exec_manual, "simple/manual", "C05,C03", 3) {
  SimpleExecCase(ctx, 2);
}
VF_CELL(submit_func, "simple/submit-func", "C05,C03", 4) {
  SubmitFuncCase(ctx);
}

int main(int argc, char** argv) {
  return vf::Main(argc, argv, "exec");
}
