// fam_repro — C17: fiber fault-injection runs are reproducible from (program, seed, fault configuration).
//
// A *run* executes one of five client programs under a fresh fault::Scheduler with a given configuration and records
//   - the full trace of resumed fibers (normalised ids) and virtual times through the YACLIB_VERIF resume hook,
//   - the client-visible event log, the results, the number of random draws and of injected yields.
// Comparisons: (a) twice in one process after re-seeding and resetting the injector; (b) in a second process started
// with exec (fresh address space, ASLR, perturbed heap, a few ms of real sleep between phases); (c) checkpoint/restore:
// phase 2 of a two-phase run replayed alone in a fresh scheduler after SetSeed + ForwardToFaultRandomCount +
// SetInjectorState.
#include "vf_exec.hpp"

#include <yaclib/async/contract.hpp>
#include <yaclib/async/run.hpp>
#include <yaclib/async/wait.hpp>
#include <yaclib/async/wait_for.hpp>
#include <yaclib/async/when_all.hpp>
#include <yaclib/async/when_any.hpp>
#include <yaclib/coro/await.hpp>
#include <yaclib/coro/future.hpp>
#include <yaclib/coro/mutex.hpp>
#include <yaclib/coro/on.hpp>
#include <yaclib/exe/submit.hpp>
#include <yaclib/fault/injector.hpp>

#include <yaclib_std/atomic>
#include <yaclib_std/chrono>
#include <yaclib_std/condition_variable>
#include <yaclib_std/mutex>
#include <yaclib_std/random>

#include <spawn.h>
#include <thread>
#include <vector>

extern char** environ;

using namespace vf;

#if VF_FIBER

namespace {

struct Log {
  u64 ev_hash = 0;
  u64 n = 0;
  void Ev(u64 x) {
    if (g_cfg.one) {
      std::printf("EV %llu\n", (unsigned long long)x);
    }
    ev_hash = Mix(ev_hash ^ (x + 0x1234567));
    ++n;
  }
};

using Program = void (*)(Log&, int phase, u64 variant);

// P1: pool + strand + coroutine mutex
void P1(Log& log, int /*phase*/, u64 v) {
  auto pool = yaclib::MakeFairThreadPool(2 + v % 2);
  auto strand = yaclib::MakeStrand(pool);
  yaclib::Mutex<> m;
  int cs = 0;
  auto co = [&](int id) -> yaclib::Future<> {
    co_await yaclib::On(*pool);
    for (int r = 0; r < 2; ++r) {
      co_await m.Lock();
      log.Ev(static_cast<u64>(100 + id * 10 + r));
      ++cs;
      co_await m.Unlock();
    }
    co_return{};
  };
  std::vector<yaclib::Future<> > fs;
  for (int i = 0; i < 3; ++i) {
    fs.push_back(co(i));
  }
  for (int i = 0; i < 4; ++i) {
    yaclib::Submit(*strand, [&log, i] {
      log.Ev(static_cast<u64>(200 + i));
    });
  }
  yaclib::Wait(fs.begin(), fs.size());
  pool->Stop();
  pool->Wait();
  log.Ev(static_cast<u64>(cs));
}

// P2: timed waits
void P2(Log& log, int /*phase*/, u64 v) {
  auto start = yaclib_std::chrono::steady_clock::now();
  std::vector<yaclib::Future<int>> fs;
  std::vector<yaclib_std::thread> ts;
  for (int i = 0; i < 3; ++i) {
    auto [f, p] = yaclib::MakeContract<int>();
    fs.push_back(std::move(f));
    ts.emplace_back([p = std::move(p), i, v]() mutable {
      yaclib_std::this_thread::sleep_for(std::chrono::nanoseconds{100 + 130 * i + (v % 3) * 50});
      std::move(p).Set(i);
    });
  }
  bool r1 = yaclib::WaitFor(std::chrono::nanoseconds{180}, fs[0], fs[1], fs[2]);
  log.Ev(r1 ? 1 : 2);
  bool r2 = yaclib::WaitFor(std::chrono::nanoseconds{300}, fs.begin(), fs.size());
  log.Ev(r2 ? 3 : 4);
  yaclib::Wait(fs.begin(), fs.end());
  for (auto& f : fs) {
    log.Ev(static_cast<u64>(std::move(f).Get().Ok()));
  }
  for (auto& t : ts) {
    t.join();
  }
  // virtual time elapsed since the program began (absolute time differs between a full run and a restored phase)
  log.Ev(static_cast<u64>(
    std::chrono::duration_cast<std::chrono::nanoseconds>(yaclib_std::chrono::steady_clock::now() - start).count()));
}

// P3: weak CAS loops (spurious failures are part of the run)
void P3(Log& log, int /*phase*/, u64 v) {
  yaclib_std::atomic<int> a{0};
  yaclib_std::atomic<int> fails{0};
  {
    int e0 = 0;
    log.Ev(a.compare_exchange_weak(e0, 0) ? 1U : 0U);  // the very first operation of the program may fail spuriously
  }
  std::vector<yaclib_std::thread> ts;
  for (int i = 0; i < 3; ++i) {
    ts.emplace_back([&, i] {
      for (int k = 0; k < 4 + static_cast<int>(v % 2); ++k) {
        int e = a.load(std::memory_order_relaxed);
        while (!a.compare_exchange_weak(e, e + 1 + i, std::memory_order_acq_rel, std::memory_order_relaxed)) {
          fails.fetch_add(1, std::memory_order_relaxed);
        }
        log.Ev(static_cast<u64>(e) * 4 + static_cast<u64>(i));
      }
    });
  }
  for (auto& t : ts) {
    t.join();
  }
  log.Ev(static_cast<u64>(a.load()));
  log.Ev(static_cast<u64>(fails.load()));
  // single-shot weak CAS: a spurious failure is reported, not retried (so the run can end right after one), and the
  // seeded random_device of the fault layer: two instances, both are functions of the seed alone
  for (int k = 0; k < 2 + static_cast<int>(v % 3); ++k) {
    int e = a.load(std::memory_order_relaxed);
    bool ok = a.compare_exchange_weak(e, e + 7);
    log.Ev(ok ? 1U : 0U);
  }
  yaclib_std::random::random_device rd1;
  log.Ev(static_cast<u64>(rd1()));
  yaclib_std::random::random_device rd2;
  log.Ev(static_cast<u64>(rd2()) ^ static_cast<u64>(rd1()));
  int e = a.load(std::memory_order_relaxed);
  log.Ev(a.compare_exchange_weak(e, e + 1) ? 1U : 0U);
}

// P4: yaclib_std locks and condition variable
void P4(Log& log, int /*phase*/, u64 v) {
  yaclib_std::mutex m;
  yaclib_std::condition_variable cv;
  int turn = 0;
  std::vector<yaclib_std::thread> ts;
  int n = 3 + static_cast<int>(v % 2);
  for (int i = 0; i < n; ++i) {
    ts.emplace_back([&, i] {
      std::unique_lock lk{m};
      bool ok = cv.wait_for(lk, std::chrono::nanoseconds{2000}, [&] {
        return turn >= i;
      });
      log.Ev(static_cast<u64>(i * 2 + (ok ? 1 : 0)));
      ++turn;
      lk.unlock();
      cv.notify_all();
    });
  }
  {
    std::unique_lock lk{m};
    turn = 0;
  }
  cv.notify_all();
  for (auto& t : ts) {
    t.join();
  }
  log.Ev(static_cast<u64>(turn));
}

// P5: combinators over pool work
void P5(Log& log, int /*phase*/, u64 v) {
  auto pool = yaclib::MakeFairThreadPool(3);
  std::vector<yaclib::FutureOn<int>> fs;
  for (int i = 0; i < 4; ++i) {
    fs.push_back(yaclib::Run(*pool, [i, v] {
      yaclib_std::this_thread::sleep_for(std::chrono::nanoseconds{50 * ((i * 7 + v) % 5)});
      return i;
    }));
  }
  std::vector<yaclib::FutureOn<int>> gs;
  for (int i = 0; i < 3; ++i) {
    gs.push_back(yaclib::Run(*pool, [i] {
      return 10 + i;
    }));
  }
  auto any = yaclib::WhenAny(gs.begin(), gs.size());
  auto all = yaclib::WhenAll(fs.begin(), fs.size());
  log.Ev(static_cast<u64>(std::move(any).Get().Ok()));
  auto vec = std::move(all).Get().Ok();
  for (int x : vec) {
    log.Ev(static_cast<u64>(x));
  }
  pool->Stop();
  pool->Wait();
}

const Program kPrograms[] = {P1, P2, P3, P4, P5};
const char* const kProgramName[] = {"pool-strand-coro-mutex", "timed-waits", "weak-cas-loops", "std-locks-condvar",
                                    "combinators"};

struct RConfig {
  u32 seed, freq, pick, tick, casfail, inj0;
  u64 variant;
};

RConfig MakeConfig(Rng& r) {
  RConfig c;
  c.seed = static_cast<u32>(r.Next());
  c.freq = r.In(1, 8);
  c.pick = r.In(1, 16);
  static const u32 ticks[] = {1, 10, 10, 25};
  c.tick = ticks[r.Below(4)];
  static const u32 cas[] = {0, 2, 5, 13};
  c.casfail = cas[r.Below(4)];
  c.inj0 = r.Below(c.freq + 1);
  c.variant = r.Below(6);
  return c;
}

struct Record {
  u64 trace_hash = 0, trace_len = 0, ev_hash = 0, ev_n = 0, rand_delta = 0, inj_delta = 0, time_end = 0;
  bool operator==(const Record& o) const {
    return trace_hash == o.trace_hash && trace_len == o.trace_len && ev_hash == o.ev_hash && ev_n == o.ev_n &&
           rand_delta == o.rand_delta && inj_delta == o.inj_delta && time_end == o.time_end;
  }
  std::string Str() const {
    char b[256];
    std::snprintf(b, sizeof b, "trace=%016llx/%llu events=%016llx/%llu rand=%llu injected=%llu t_end=%llu",
                  (unsigned long long)trace_hash, (unsigned long long)trace_len, (unsigned long long)ev_hash,
                  (unsigned long long)ev_n, (unsigned long long)rand_delta, (unsigned long long)inj_delta,
                  (unsigned long long)time_end);
    return b;
  }
};

// full trace collection
struct FullTrace {
  u64 hash = 0, len = 0, t0 = 0;
  bool on = false;
  u64 ids[64];
  int nids = 0;
  void Reset() {
    hash = 0;
    len = 0;
    nids = 0;
    t0 = ~0ull;
  }
  u64 Norm(u64 id) {
    for (int i = 0; i < nids; ++i) {
      if (ids[i] == id) {
        return static_cast<u64>(i);
      }
    }
    if (nids < 64) {
      ids[nids] = id;
      return static_cast<u64>(nids++);
    }
    return 999;
  }
};
FullTrace g_ft;

void RawHook(u64 fiber_id, u64 time_ns) {
  g_trace.resumes++;
  if (!g_ft.on) {
    return;
  }
  if (g_ft.t0 == ~0ull) {
    g_ft.t0 = time_ns;
  }
  u64 n = g_ft.Norm(fiber_id);
  g_ft.hash = Mix(g_ft.hash ^ Mix(n * 1000003ull + (time_ns - g_ft.t0)));
  g_ft.len++;
}

void Apply(const RConfig& c) {
  yaclib::SetSeed(c.seed);
  yaclib::SetFaultFrequency(c.freq);
  yaclib::SetFaultSleepTime(200);
  yaclib::SetAtomicFailFrequency(c.casfail);
  yaclib::fiber::SetFaultRandomListPick(c.pick);
  yaclib::fiber::SetFaultTickLength(c.tick);
  yaclib::fiber::SetInjectorState(c.inj0);
}

// one complete run of `prog` under a fresh scheduler; real_sleep_us: wall-clock noise inserted before the run
Record RunOnceHere(Program prog, const RConfig& c, bool apply_here) {
  Record rec;
  yaclib::fault::Scheduler sched;
  yaclib::fault::Scheduler::Set(&sched);
  if (apply_here) {
    Apply(c);
  }
  u64 r0 = yaclib::fiber::GetFaultRandomCount();
  u64 i0 = yaclib::GetInjectedCount();
  g_ft.Reset();
  g_ft.on = true;
  Log log;
  bool done = false;
  {
    yaclib_std::thread root([&] {
      prog(log, 0, c.variant);
      done = true;
    });
    if (!done) {
      std::fprintf(stderr, "repro program deadlocked\n");
      ChildExit(77);
    }
    root.join();
  }
  g_ft.on = false;
  rec.trace_hash = g_ft.hash;
  rec.trace_len = g_ft.len;
  rec.ev_hash = log.ev_hash;
  rec.ev_n = log.n;
  rec.rand_delta = yaclib::fiber::GetFaultRandomCount() - r0;
  rec.inj_delta = yaclib::GetInjectedCount() - i0;
  rec.time_end = sched.GetTimeNs();
  yaclib::fault::Scheduler::Set(nullptr);
  return rec;
}

// `on_helper_thread`: the configuration (seed, frequencies, injector state) is applied by the calling thread, the
// scheduler and the program then run on a freshly created OS thread - the shape of a harness with a watchdog thread.
// The run must not depend on which OS thread hosts the scheduler.
Record RunOnce(Program prog, const RConfig& c, unsigned real_sleep_us, std::size_t heap_pad, bool on_helper_thread = false) {
  void* pad = heap_pad != 0 ? std::malloc(heap_pad) : nullptr;
  if (real_sleep_us != 0) {
    usleep(real_sleep_us);
  }
  Record rec;
  if (on_helper_thread) {
    Apply(c);
    std::thread host([&] {
      rec = RunOnceHere(prog, c, false);
    });
    host.join();
  } else {
    rec = RunOnceHere(prog, c, true);
  }
  std::free(pad);
  return rec;
}

void InProcessCase(Ctx& ctx, int pi) {
  RConfig c = MakeConfig(ctx.rng);
  ctx.Note("program=%s seed=%u freq=%u pick=%u tick=%u casfail=%u inj0=%u variant=%llu: run twice in one process",
           kProgramName[pi], c.seed, c.freq, c.pick, c.tick, c.casfail, c.inj0, (unsigned long long)c.variant);
  Record a = RunOnce(kPrograms[pi], c, 0, 0);
  // disturb the process between the runs: different heap layout, a run with another seed in between
  RConfig other = c;
  other.seed ^= 0x5a5a5a5a;
  std::size_t pad = 64 + ctx.rng.Below(5000);
  (void)RunOnce(kPrograms[(pi + 1) % 5], other, 0, pad);
  bool helper = ctx.rng.Coin();
  Record b = RunOnce(kPrograms[pi], c, 0, pad * 3, helper);
  ctx.SetNontrivial(a.trace_len > 20 && a.inj_delta > 0);
  ctx.Observe(a.trace_hash);
  ctx.Check(a == b, "rerun-differs", "C17", "same program, seed and configuration, two runs in one process%s: [%s] vs [%s]",
            helper ? " (the second one hosted by a helper OS thread)" : "", a.Str().c_str(), b.Str().c_str());
  ctx.Note(" -> %s", a.Str().c_str());
}

// second process: exec ourselves with --emit
std::string ExePath() {
  char buf[4096];
  ssize_t n = readlink("/proc/self/exe", buf, sizeof buf - 1);
  buf[n > 0 ? n : 0] = 0;
  return buf;
}

bool EmitInChild(int pi, const RConfig& c, unsigned perturb, Record& out) {
  char args[12][32];
  std::snprintf(args[0], 32, "%d", pi);
  std::snprintf(args[1], 32, "%u", c.seed);
  std::snprintf(args[2], 32, "%u", c.freq);
  std::snprintf(args[3], 32, "%u", c.pick);
  std::snprintf(args[4], 32, "%u", c.tick);
  std::snprintf(args[5], 32, "%u", c.casfail);
  std::snprintf(args[6], 32, "%u", c.inj0);
  std::snprintf(args[7], 32, "%llu", (unsigned long long)c.variant);
  std::snprintf(args[8], 32, "%u", perturb);
  std::string exe = ExePath();
  char emit[] = "--emit";
  char* argv[] = {exe.data(), emit, args[0], args[1], args[2], args[3], args[4], args[5], args[6], args[7], args[8], nullptr};
  int fds[2];
  if (pipe(fds) != 0) {
    return false;
  }
  posix_spawn_file_actions_t fa;
  posix_spawn_file_actions_init(&fa);
  posix_spawn_file_actions_adddup2(&fa, fds[1], 1);
  posix_spawn_file_actions_addclose(&fa, fds[0]);
  std::vector<std::string> envs;
  for (char** e = environ; *e != nullptr; ++e) {
    if (std::strncmp(*e, "MALLOC_PERTURB_=", 16) != 0) {
      envs.emplace_back(*e);
    }
  }
  envs.push_back("MALLOC_PERTURB_=" + std::to_string(1 + perturb % 200));
  std::vector<char*> envp;
  for (auto& s : envs) {
    envp.push_back(s.data());
  }
  envp.push_back(nullptr);
  pid_t pid = 0;
  int rc = posix_spawn(&pid, exe.c_str(), &fa, nullptr, argv, envp.data());
  posix_spawn_file_actions_destroy(&fa);
  close(fds[1]);
  if (rc != 0) {
    close(fds[0]);
    return false;
  }
  char buf[512];
  std::string txt;
  ssize_t n;
  while ((n = read(fds[0], buf, sizeof buf)) > 0) {
    txt.append(buf, static_cast<std::size_t>(n));
  }
  close(fds[0]);
  int st = 0;
  waitpid(pid, &st, 0);
  unsigned long long v[7];
  if (std::sscanf(txt.c_str(), "REC %llx %llu %llx %llu %llu %llu %llu", &v[0], &v[1], &v[2], &v[3], &v[4], &v[5],
                  &v[6]) != 7) {
    return false;
  }
  out.trace_hash = v[0];
  out.trace_len = v[1];
  out.ev_hash = v[2];
  out.ev_n = v[3];
  out.rand_delta = v[4];
  out.inj_delta = v[5];
  out.time_end = v[6];
  return true;
}

void CrossProcessCase(Ctx& ctx, int pi) {
  RConfig c = MakeConfig(ctx.rng);
  unsigned perturb = ctx.rng.Below(100000);
  ctx.Note("program=%s seed=%u freq=%u pick=%u tick=%u casfail=%u inj0=%u variant=%llu: this process vs. a new process "
           "(exec, ASLR, MALLOC_PERTURB_, heap pad, real sleeps)",
           kProgramName[pi], c.seed, c.freq, c.pick, c.tick, c.casfail, c.inj0, (unsigned long long)c.variant);
  Record a = RunOnce(kPrograms[pi], c, 0, 0);
  Record b;
  bool ok = EmitInChild(pi, c, perturb, b);
  if (!ok) {
    // harness problem (spawn failed), not a verdict
    g_shm->inconclusive.fetch_add(1, kRlx);
    return;
  }
  ctx.SetNontrivial(a.trace_len > 20 && a.inj_delta > 0);
  ctx.Observe(a.trace_hash);
  ctx.Check(a == b, "new-process-differs", "C17", "same program, seed and configuration in a new process: [%s] vs [%s]",
            a.Str().c_str(), b.Str().c_str());
  ctx.Note(" -> %s", a.Str().c_str());
}

// checkpoint / restore, chained: the original run executes phases 1,2,3 and records checkpoints A (after 1) and B
// (after 2).  Restored run R1 restores A, replays phase 2 (must equal the original phase 2) and records its own
// checkpoint B' (must equal B).  Restored run R2 restores B' and replays phase 3 (must equal the original phase 3).
struct PhaseRec {
  Record rec;
  u64 ck_rand = 0;  // random draws since seeding at the end of the phase
  u32 ck_inj = 0;
};

// runs phases [first, 3] of (p1,p2,p3) in one scheduler; when first > 1 restores (ck_rand, ck_inj) inside the root
void RunPhases(const RConfig& c, const int* progs, int first, u64 ck_rand, u32 ck_inj, PhaseRec* out) {
  yaclib::fault::Scheduler sched;
  yaclib::fault::Scheduler::Set(&sched);
  Apply(c);
  u64 r0 = yaclib::fiber::GetFaultRandomCount();
  g_ft.Reset();
  g_ft.on = false;
  bool done = false;
  {
    yaclib_std::thread root([&] {
      if (first > 1) {
        yaclib::SetSeed(c.seed);
        r0 = yaclib::fiber::GetFaultRandomCount();
        yaclib::fiber::ForwardToFaultRandomCount(ck_rand);
        yaclib::fiber::SetInjectorState(ck_inj);
      }
      for (int ph = first; ph <= 3; ++ph) {
        Log log;
        u64 i0 = yaclib::GetInjectedCount();
        u64 rr0 = yaclib::fiber::GetFaultRandomCount();
        g_ft.Reset();
        g_ft.on = true;
        kPrograms[progs[ph - 1]](log, ph, c.variant);
        g_ft.on = false;
        auto& o = out[ph - 1];
        o.rec.trace_hash = g_ft.hash;
        o.rec.trace_len = g_ft.len;
        o.rec.ev_hash = log.ev_hash;
        o.rec.ev_n = log.n;
        o.rec.rand_delta = yaclib::fiber::GetFaultRandomCount() - rr0;
        o.rec.inj_delta = yaclib::GetInjectedCount() - i0;
        o.ck_rand = yaclib::fiber::GetFaultRandomCount() - r0;
        o.ck_inj = yaclib::fiber::GetInjectorState();
      }
      done = true;
    });
    if (!done) {
      ChildExit(77);
    }
    root.join();
  }
  yaclib::fault::Scheduler::Set(nullptr);
}

void CheckpointCase(Ctx& ctx, int pi) {
  RConfig c = MakeConfig(ctx.rng);
  int progs[3] = {pi, (pi + 1 + static_cast<int>(ctx.rng.Below(4))) % 5, static_cast<int>(ctx.rng.Below(5))};
  ctx.Note("phases=%s,%s,%s seed=%u freq=%u pick=%u tick=%u casfail=%u inj0=%u: restore A -> replay phase 2 + checkpoint B', "
           "restore B' -> replay phase 3",
           kProgramName[progs[0]], kProgramName[progs[1]], kProgramName[progs[2]], c.seed, c.freq, c.pick, c.tick, c.casfail,
           c.inj0);
  PhaseRec full[3], r1[3], r2[3];
  RunPhases(c, progs, 1, 0, 0, full);
  RunPhases(c, progs, 2, full[0].ck_rand, full[0].ck_inj, r1);
  RunPhases(c, progs, 3, r1[1].ck_rand, r1[1].ck_inj, r2);
  ctx.SetNontrivial(full[1].rec.trace_len > 20);
  ctx.Observe(full[1].rec.trace_hash ^ full[2].rec.trace_hash);
  ctx.Check(full[1].rec == r1[1].rec, "restore-differs", "C17",
            "phase 2 after restoring checkpoint A (random count %llu, injector state %u): original [%s] vs restored [%s]",
            (unsigned long long)full[0].ck_rand, full[0].ck_inj, full[1].rec.Str().c_str(), r1[1].rec.Str().c_str());
  ctx.Check(full[1].ck_rand == r1[1].ck_rand && full[1].ck_inj == r1[1].ck_inj, "restored-checkpoint-differs", "C17",
            "checkpoint B recorded inside the restored run is (random count %llu, injector %u), the original run recorded "
            "(%llu, %u)",
            (unsigned long long)r1[1].ck_rand, r1[1].ck_inj, (unsigned long long)full[1].ck_rand, full[1].ck_inj);
  ctx.Check(full[2].rec == r1[2].rec, "restore-differs", "C17", "phase 3 continued after the first restore: original [%s] vs [%s]",
            full[2].rec.Str().c_str(), r1[2].rec.Str().c_str());
  ctx.Check(full[2].rec == r2[2].rec, "second-restore-differs", "C17",
            "phase 3 after restoring the checkpoint taken inside a restored run: original [%s] vs restored [%s]",
            full[2].rec.Str().c_str(), r2[2].rec.Str().c_str());
}

}  // namespace

#define REPRO_CELLS(i, name)                                                                                           \
  VF_CELL_RAW(rep_in_##i, "in-process/" name, "C17", 10) {                                                             \
    InProcessCase(ctx, i);                                                                                             \
  }                                                                                                                    \
  VF_CELL_RAW(rep_x_##i, "new-process/" name, "C17", 2) {                                                              \
    CrossProcessCase(ctx, i);                                                                                          \
  }                                                                                                                    \
  VF_CELL_RAW(rep_ck_##i, "checkpoint-restore/" name, "C17", 6) {                                                      \
    CheckpointCase(ctx, i);                                                                                            \
  }

REPRO_CELLS(0, "pool-strand-coro-mutex")
REPRO_CELLS(1, "timed-waits")
REPRO_CELLS(2, "weak-cas-loops")
REPRO_CELLS(3, "std-locks-condvar")
REPRO_CELLS(4, "combinators")

#endif  // VF_FIBER

int main(int argc, char** argv) {
#if VF_FIBER
  if (argc >= 11 && std::strcmp(argv[1], "--emit") == 0) {
    // child of CrossProcessCase: run once and print the record
    int pi = std::atoi(argv[2]);
    RConfig c;
    c.seed = static_cast<u32>(std::strtoul(argv[3], nullptr, 10));
    c.freq = static_cast<u32>(std::atoi(argv[4]));
    c.pick = static_cast<u32>(std::atoi(argv[5]));
    c.tick = static_cast<u32>(std::atoi(argv[6]));
    c.casfail = static_cast<u32>(std::atoi(argv[7]));
    c.inj0 = static_cast<u32>(std::atoi(argv[8]));
    c.variant = std::strtoull(argv[9], nullptr, 10);
    unsigned perturb = static_cast<unsigned>(std::atoi(argv[10]));
    vf::Shm* fake = static_cast<vf::Shm*>(mmap(nullptr, sizeof(vf::Shm), PROT_READ | PROT_WRITE,
                                               MAP_SHARED | MAP_ANONYMOUS | MAP_NORESERVE, -1, 0));
    vf::g_shm = fake;
    yaclib::fiber::SetStackSize(64);
    yaclib::fiber::SetHardwareConcurrency(4);
    yaclib::fault::SetVerifResumeHook(&RawHook);
    // some unrelated activity first: other program, other seed
    RConfig other = c;
    other.seed += 17;
    (void)RunOnce(kPrograms[(pi + 2) % 5], other, 500 + perturb % 3000, 100 + perturb % 7777);
    Record r = RunOnce(kPrograms[pi], c, 300 + perturb % 2000, 1 + perturb % 3333, (perturb / 7) % 2 == 1);
    std::printf("REC %llx %llu %llx %llu %llu %llu %llu\n", (unsigned long long)r.trace_hash,
                (unsigned long long)r.trace_len, (unsigned long long)r.ev_hash, (unsigned long long)r.ev_n,
                (unsigned long long)r.rand_delta, (unsigned long long)r.inj_delta, (unsigned long long)r.time_end);
    std::fflush(stdout);
    _exit(0);
  }
  vf::g_raw_hook = &RawHook;
#endif
  return vf::Main(argc, argv, "repro");
}
