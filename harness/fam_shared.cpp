// fam_shared — C06 (SharedFuture observers); also feeds C03, C04.
//
// One fulfilling thread (value / error / exception / dropped SharedPromise) and 2-4 observer threads, each with its own
// copy (or a shared const reference), each running a random sequence of observer operations before, during and after
// fulfilment; a bystander copy only samples Ready() and, when true, reads the value.
#include "vf_exec.hpp"

#include <yaclib/async/connect.hpp>
#include <yaclib/async/contract.hpp>
#include <yaclib/async/make.hpp>
#include <yaclib/async/share.hpp>
#include <yaclib/async/shared_contract.hpp>
#include <yaclib/async/split.hpp>
#include <yaclib/async/wait.hpp>
#include <yaclib/coro/await.hpp>
#include <yaclib/coro/future.hpp>
#include <yaclib/coro/shared_future.hpp>

#include <deque>
#include <vector>

using namespace vf;
using yaclib::Result;
using R = Result<Tracked, MyError>;
using SF = yaclib::SharedFuture<Tracked, MyError>;

namespace {

inline void Jitter(u32 n) {
#if VF_FIBER
  for (u32 i = 0; i < n; ++i) {
    yaclib_std::this_thread::yield();
  }
#else
  for (volatile u32 i = 0; i < n * 40; ++i) {
  }
#endif
}

enum ProducerKind { kVal = 0, kErr = 1, kExc = 2, kDrop = 3, kCoroSplit = 4, kCoroConnect = 5, kCoroShared = 6 };
const char* const kProducerName[] = {"set-value",          "set-error",          "set-exception",        "drop-promise",
                                     "Split(coroutine)",   "Connect(coroutine)", "SharedFuture-coroutine"};

struct World {
  int pk = 0;
  int code = 0;
  int side = 0;
  u64 set_call = 0, set_ret = 0;
  int exp_state = 0, exp_code = 0;
};

struct Obs {
  std::atomic<int> calls{0};
  int state = -9, code = 0;
  bool good = true, fresh = true;
  u64 at = 0;
  int side = -1;
  int tag = -1;
  const char* what = "";
  int want_tag = -2;
};

void Digest(Obs& o, const R& r, const World& w) {
  o.at = Stamp();
  VF_R(w.side, "C04,C06");
  o.side = w.side;
  o.tag = CurTag();
  o.state = static_cast<int>(r.State());
  if (o.state == 0) {
    o.code = r.Value().v;
    o.good = r.Value().Good();
    o.fresh = r.Value().Fresh();
  } else if (o.state == 1) {
    try {
      std::rethrow_exception(r.Exception());
    } catch (const MyException& e) {
      o.code = e.code;
    } catch (...) {
      o.code = -777;
    }
  } else if (o.state == 2) {
    o.code = r.Error().code;
  }
  o.calls.fetch_add(1, kRlx);
}

enum Op {
  oSubscribeInline,
  oSubscribeExec,
  oThenInline,
  oThenExec,
  oShareGet,
  oShareOnThen,
  oSplitShare,
  oConnectPromise,
  oConnectShared,
  oWait,
  oGetConst,
  oCopyGetMove,
  oReadyTouch,
  oCopyDestroy,
  oUnwrapStep,
  oUnwrapStepExec,
  kOps,
  oOwnGetMove = kOps  // terminal: Get()&& on the observer's own copy (moves out iff it is the last reference)
};
const char* const kOpName[] = {"SubscribeInline", "Subscribe(e)",       "ThenInline",        "Then(e)",
                               "Share+Get",       "Share(e)+Then()",    "Split(Share)",      "Connect(->Promise)",
                               "Connect(->SharedPromise)", "Wait",     "Get const&",        "copy+Get&&",
                               "Ready-then-Touch", "copy+destroy", "step returning the SharedFuture",
                               "step on e returning the SharedFuture", "own-copy Get&&"};

struct Step {
  int op;
  u32 jit;
  Obs obs;
  Obs obs2;
};

struct Observer {
  std::deque<Step> steps;
  u32 jit = 0;
  bool by_ref = false;
};

void CheckObs(Ctx& ctx, const Obs& o, const World& w, bool must_fresh, const char* opname) {
  int calls = o.calls.load(kRlx);
  ctx.Check(calls == 1, "observer-exactly-once", "C06", "%s (%s) fired %d times", opname, o.what, calls);
  if (calls < 1) {
    return;
  }
  ctx.Check(o.state == w.exp_state && o.code == w.exp_code, "observer-value", "C06",
            "%s (%s) saw state=%d code=%d, the promise set state=%d code=%d", opname, o.what, o.state, o.code,
            w.exp_state, w.exp_code);
  ctx.Check(o.good, "value-torn", "C06", "%s (%s) read a torn / unconstructed / destroyed value", opname, o.what);
  if (must_fresh) {
    ctx.Check(o.fresh, "moved-from-read", "C06", "%s (%s) read a moved-from value", opname, o.what);
  }
  ctx.Check(o.at > w.set_call, "before-set", "C06", "%s (%s) fired at t=%llu before Set began (t=%llu)", opname, o.what,
            (unsigned long long)o.at, (unsigned long long)w.set_call);
  ctx.Check(o.side == w.side, "visibility", "C06,C04", "%s (%s) read side=%d, producer wrote %d", opname, o.what,
            o.side, w.side);
  if (o.want_tag != -2) {
    ctx.Check(o.tag == o.want_tag, "ran-on-executor", "C06,C05", "%s (%s) ran with executor tag %d, expected %d",
              opname, o.what, o.tag, o.want_tag);
  }
}

void SharedCase(Ctx& ctx, bool with_ready_touch) {
  ResetTags();
  World w;
  // the last three kinds fulfil the shared state from a coroutine's final suspend (symmetric transfer path)
  w.pk = static_cast<int>(ctx.rng.Below(7));
  w.code = static_cast<int>(ctx.rng.In(1, 1000000));
  switch (w.pk) {
    case kVal:
    case kCoroSplit:
    case kCoroConnect:
    case kCoroShared:
      w.exp_state = 0;
      w.exp_code = w.code;
      break;
    case kErr:
      w.exp_state = 2;
      w.exp_code = w.code;
      break;
    case kExc:
      w.exp_state = 1;
      w.exp_code = w.code;
      break;
    default:
      w.exp_state = 2;
      w.exp_code = -1;
      break;
  }
  int nobs = static_cast<int>(ctx.rng.In(2, 4));
  std::deque<Observer> observers(static_cast<std::size_t>(nobs));
  ctx.Note("%s code=%d observers=[", kProducerName[w.pk], w.code);
  for (auto& o : observers) {
    int len = static_cast<int>(ctx.rng.In(1, 3));
    o.jit = ctx.rng.Below(6);
    o.by_ref = ctx.rng.Below(4) == 0;
    o.steps.resize(static_cast<std::size_t>(len));
    for (auto& s : o.steps) {
      do {
        s.op = static_cast<int>(ctx.rng.Below(kOps));
      } while (!with_ready_touch && s.op == oReadyTouch);
      s.jit = ctx.rng.Below(3);
      ctx.Note("%s,", kOpName[s.op]);
    }
    if (!o.by_ref && ctx.rng.Below(3) == 0) {
      o.steps.back().op = oOwnGetMove;
      ctx.Note("then own Get&&");
    }
    ctx.Note("%s| ", o.by_ref ? "(by-ref)" : "");
  }
  ctx.Note("] ");
  u32 pj = ctx.rng.Below(8);
  bool bystander = with_ready_touch && ctx.rng.Coin();
  int exec_kind = static_cast<int>(ctx.rng.Below(2));  // 0 inline, 1 pool(1)
  ctx.Class(kProducerName[w.pk]);

  yaclib::IntrusivePtr<yaclib::FairThreadPool> pool;
  if (exec_kind == 1) {
    pool = yaclib::MakeFairThreadPool(1);
  }
  TagExec tag{9, exec_kind == 1 ? static_cast<yaclib::IExecutor&>(*pool) : yaclib::MakeInline()};
  std::atomic<int> ready_bad{0};
  std::atomic<int> by_good{1};
  int by_samples = 0;
  bool by_monotonic = true;
  {
    // coroutine producers: the body waits for a gate the producer thread opens, then completes the shared state
    auto co_unique = [&w](yaclib::Future<void, MyError> gate) -> yaclib::Future<Tracked, MyError> {
      co_await yaclib::Await(gate);
      VF_W(w.side, "C04,C06");
      w.side = w.code;
      w.set_call = Stamp();
      co_return Tracked{w.code};
    };
    auto co_shared = [&w](yaclib::Future<void, MyError> gate) -> yaclib::SharedFuture<Tracked, MyError> {
      co_await yaclib::Await(gate);
      VF_W(w.side, "C04,C06");
      w.side = w.code;
      w.set_call = Stamp();
      co_return Tracked{w.code};
    };
    auto [gate_f, gate_p] = yaclib::MakeContract<void, MyError>();
    SF sf0;
    yaclib::SharedPromise<Tracked, MyError> sp0;
    if (w.pk == kCoroSplit) {
      sf0 = yaclib::Split(co_unique(std::move(gate_f)));
    } else if (w.pk == kCoroConnect) {
      auto [f, p] = yaclib::MakeSharedContract<Tracked, MyError>();
      sf0 = std::move(f);
      yaclib::Connect(co_unique(std::move(gate_f)), std::move(p));
    } else if (w.pk == kCoroShared) {
      sf0 = co_shared(std::move(gate_f));
    } else {
      auto [f, p] = yaclib::MakeSharedContract<Tracked, MyError>();
      sf0 = std::move(f);
      sp0 = std::move(p);
    }
    SF root_copy = sf0;
    std::vector<SF> copies;
    for (int i = 0; i < nobs; ++i) {
      copies.push_back(sf0);
    }
    SF by_copy = sf0;
    sf0 = {};
    bool any_ref = false;
    for (auto& o : observers) {
      any_ref = any_ref || o.by_ref;
    }
    if (!any_ref) {
      root_copy = {};  // observers own every reference: the last one to finish is provably last
    }
    std::vector<yaclib_std::thread> ts;
    ts.emplace_back([&, sp = std::move(sp0), gp = std::move(gate_p)]() mutable {
      Jitter(pj);
      if (w.pk >= kCoroSplit) {
        std::move(gp).Set();  // the coroutine resumes here and completes the shared state from its final suspend
        w.set_ret = Stamp();
        return;
      }
      { auto unused_gate = std::move(gp); }
      VF_W(w.side, "C04,C06");
      w.side = w.code;
      w.set_call = Stamp();
      switch (w.pk) {
        case kVal:
          std::move(sp).Set(Tracked{w.code});
          break;
        case kErr:
          std::move(sp).Set(MyError{w.code});
          break;
        case kExc:
          std::move(sp).Set(std::make_exception_ptr(MyException{w.code}));
          break;
        default: {
          auto q = std::move(sp);
        } break;
      }
      w.set_ret = Stamp();
    });
    for (int i = 0; i < nobs; ++i) {
      ts.emplace_back([&, i] {
        auto& me = observers[static_cast<std::size_t>(i)];
        Jitter(me.jit);
        SF mine = me.by_ref ? SF{} : std::move(copies[static_cast<std::size_t>(i)]);
        const SF& sf = me.by_ref ? root_copy : mine;
        if (me.by_ref) {
          copies[static_cast<std::size_t>(i)] = {};
        }
        for (auto& st : me.steps) {
          Jitter(st.jit);
          Obs& o = st.obs;
          auto cb = [&o, &w](const R& r) {
            Digest(o, r, w);
          };
          switch (st.op) {
            case oSubscribeInline:
              o.what = "callback";
              sf.SubscribeInline(cb);
              break;
            case oSubscribeExec:
              o.what = "callback";
              o.want_tag = 9;
              sf.Subscribe(tag, cb);
              break;
            case oThenInline: {
              o.what = "continuation";
              auto f = sf.ThenInline(cb);
              (void)std::move(f).Get();
            } break;
            case oThenExec: {
              o.what = "continuation";
              o.want_tag = 9;
              auto f = sf.Then(tag, cb);
              (void)std::move(f).Get();
            } break;
            case oShareGet: {
              o.what = "Get on Share()";
              auto f = yaclib::Share(sf);
              auto r = std::move(f).Get();
              Digest(o, r, w);
            } break;
            case oShareOnThen: {
              o.what = "Then() on Share(e)";
              o.want_tag = 9;
              auto f = yaclib::Share(sf, tag).Then([&o, &w](R&& r) {
                Digest(o, r, w);
              });
              (void)std::move(f).Get();
            } break;
            case oSplitShare: {
              o.what = "Get on Split(Share())";
              auto s2 = yaclib::Split(yaclib::Share(sf));
              Digest(o, std::as_const(s2).Get(), w);
            } break;
            case oConnectPromise: {
              o.what = "future connected";
              auto [f2, p2] = yaclib::MakeContract<Tracked, MyError>();
              yaclib::Connect(sf, std::move(p2));
              auto r = std::move(f2).Get();
              Digest(o, r, w);
            } break;
            case oConnectShared: {
              o.what = "shared future connected";
              auto [f2, p2] = yaclib::MakeSharedContract<Tracked, MyError>();
              yaclib::Connect(sf, std::move(p2));
              f2.SubscribeInline(cb);
              Digest(st.obs2, std::as_const(f2).Get(), w);
              st.obs2.what = "Get on connected shared future";
            } break;
            case oWait:
              o.what = "Touch after Wait";
              yaclib::Wait(sf);
              if (!sf.Ready()) {
                ready_bad.fetch_add(1, kRlx);
              }
              Digest(o, sf.Touch(), w);
              break;
            case oGetConst:
              o.what = "Get const&";
              Digest(o, sf.Get(), w);
              break;
            case oCopyGetMove: {
              o.what = "copy+Get&&";
              SF c = sf;
              R r = std::move(c).Get();
              Digest(o, r, w);
            } break;
            case oReadyTouch: {
              o.what = "Ready-then-Touch";
              // never blocks: observes whatever state the future is in right now
              if (sf.Ready()) {
                Digest(o, sf.Touch(), w);
              } else {
                o.calls.store(-1, kRlx);  // not ready: nothing to check
              }
            } break;
            case oOwnGetMove: {
              o.what = "Get&& on own copy";
              R r = std::move(mine).Get();
              Digest(o, r, w);
            } break;
            case oCopyDestroy: {
              SF c = sf;
              SF d = c;
              o.calls.store(-1, kRlx);
            } break;
            case oUnwrapStep: {
              // a continuation that returns a copy of the SharedFuture: the step is flattened with the shared result,
              // which it may only copy because other observers still hold the state
              o.what = "Get on the flattened step";
              auto f = yaclib::MakeFuture<void, MyError>().ThenInline([c = sf] {
                return c;
              });
              auto r = std::move(f).Get();
              Digest(o, r, w);
            } break;
            case oUnwrapStepExec: {
              o.what = "Get on the flattened step";
              auto f = yaclib::MakeFuture<void, MyError>().Then(tag, [c = sf] {
                return c;
              });
              auto r = std::move(f).Get();
              Digest(o, r, w);
            } break;
            default:
              break;
          }
        }
      });
    }
    if (bystander) {
      ts.emplace_back([&] {
        bool seen = false;
        for (int k = 0; k < 12; ++k) {
          bool ready = by_copy.Ready();
          if (seen && !ready) {
            by_monotonic = false;
          }
          if (ready) {
            seen = true;
            ++by_samples;
            const R& r = by_copy.Touch();
            Obs tmp;
            Digest(tmp, r, w);
            if (!(tmp.good && tmp.fresh && tmp.state == w.exp_state && tmp.code == w.exp_code)) {
              by_good.store(0, kRlx);
            }
          }
          Jitter(2);
        }
        by_copy = {};
      });
    } else {
      by_copy = {};
    }
    for (auto& t : ts) {
      t.join();
    }
    if (pool) {
      pool->Stop();
      pool->Wait();
    }
    root_copy = {};
  }
  // ---- oracles
  bool overlapped = false;
  int fired = 0;
  for (auto& ob : observers) {
    for (auto& st : ob.steps) {
      if (st.obs.calls.load(kRlx) == -1) {
        continue;
      }
      if (st.op == oReadyTouch && st.obs.calls.load(kRlx) == 0) {
        continue;
      }
      ++fired;
      bool move_out = st.op == oCopyGetMove || st.op == oShareGet || st.op == oConnectPromise ||
                      st.op == oShareOnThen || st.op == oSplitShare;
      // a private Result (moved or copied out for this observer) must be fresh as well: whoever produced it had to
      // copy unless it was provably last
      (void)move_out;
      CheckObs(ctx, st.obs, w, true, kOpName[st.op]);
      if (st.op == oConnectShared) {
        CheckObs(ctx, st.obs2, w, true, kOpName[st.op]);
      }
      if (st.obs.at > w.set_call && st.obs.at < w.set_ret) {
        overlapped = true;
      }
    }
  }
  ctx.SetNontrivial(fired >= 2);
  ctx.Class(overlapped ? "fired-inside-set" : "no-callback-inside-set");
  ctx.Observe(static_cast<u64>(fired));
  ctx.Check(ready_bad.load(kRlx) == 0, "wait-ready", "C06", "Wait(sf) returned but Ready()==false");
  if (bystander) {
    ctx.Check(by_monotonic, "ready-monotonic", "C06", "bystander saw Ready() go back to false");
    ctx.Check(by_good.load(kRlx) == 1, "ready-readable", "C06",
              "bystander saw Ready()==true but the value read was not the Result that was set (%d ready samples)",
              by_samples);
  }
}

// deterministic witness cells for the Ready()-with-registered-callbacks state
void ReadyWitness(Ctx& ctx) {
  auto [sf, sp] = yaclib::MakeSharedContract<Tracked, MyError>();
  int calls = 0;
  ctx.SetNontrivial(true);
  ctx.Check(!sf.Ready(), "ready-readable", "C06", "fresh SharedFuture is Ready()");
  sf.SubscribeInline([&calls](const R&) {
    ++calls;
  });
  ctx.Check(!sf.Ready(), "ready-readable", "C06",
            "Ready()==true on a SharedFuture that only has a callback registered (no value was set)");
  SF copy = sf;
  ctx.Check(!copy.Ready(), "ready-readable", "C06", "copy: Ready()==true before Set");
  std::move(sp).Set(Tracked{5});
  ctx.Check(sf.Ready() && calls == 1, "observer-exactly-once", "C06", "after Set: Ready=%d calls=%d", (int)sf.Ready(),
            calls);
  ctx.Check(sf.Touch().Value().Fresh() && sf.Touch().Value().v == 5, "moved-from-read", "C06",
            "value not readable after Set");
}

}  // namespace

VF_CELL(shared_ops, "observers/no-ready-touch", "C06,C03,C04", 30) {
  SharedCase(ctx, false);
}
VF_CELL(shared_ops_ready, "observers/with-ready-touch", "C06,C03", 30) {
  SharedCase(ctx, true);
}
VF_CELL(shared_ready_witness, "witness/ready-with-callback-registered", "C06", 1) {
  ReadyWitness(ctx);
}

int main(int argc, char** argv) {
  return vf::Main(argc, argv, "shared");
}
