// fam_stdlocks — C18: yaclib_std locks, condition variables, threads and thread-locals under the FIBER backend.
//
// k fibers run random operation sequences on ONE lock of a given type.  Shadow state follows DESIGN §2.6: a fiber is a
// *confirmed* holder only between the return of a successful acquire and the call of the matching release; while it
// is inside an acquire or release call it is a *maybe* holder.  Mutual-exclusion verdicts use confirmed holders only;
// a failed try/timed attempt must be justified by some other (confirmed or maybe) holder during the call, a failed
// timed attempt additionally by the virtual clock.  A fiber still parked when everybody has released = lost wake-up.
#include "vf.hpp"

#include <yaclib_std/chrono>
#include <yaclib_std/condition_variable>
#include <yaclib_std/mutex>
#include <yaclib_std/shared_mutex>
#include <yaclib_std/thread_local>

#include <deque>
#include <vector>

using namespace vf;

#if VF_FIBER

namespace {

inline long long NowNs() {
  return std::chrono::duration_cast<std::chrono::nanoseconds>(yaclib_std::chrono::steady_clock::now().time_since_epoch())
    .count();
}

constexpr int kMaxFibers = 6;

struct Shadow {
  // per fiber
  int excl[kMaxFibers] = {};    // confirmed exclusive depth
  int shared[kMaxFibers] = {};  // confirmed shared holds
  int maybe[kMaxFibers] = {};   // inside an acquire / release call (mode: 1 exclusive, 2 shared)
  u64 activity = 0;             // bumped whenever anybody's maybe/confirmed state changes
  int nf = 0;

  bool OtherHolds(int me, bool exclusive_request) const {
    for (int i = 0; i < nf; ++i) {
      if (i == me) {
        continue;
      }
      if (excl[i] != 0 || maybe[i] == 1) {
        return true;
      }
      if (exclusive_request && (shared[i] != 0 || maybe[i] == 2)) {
        return true;
      }
    }
    return false;
  }
};

enum LockType { tMutex, tTimed, tRecursive, tRecursiveTimed, tShared, tSharedTimed, kLockTypes };
const char* const kTypeName[] = {"mutex",        "timed_mutex",       "recursive_mutex", "recursive_timed_mutex",
                                 "shared_mutex", "shared_timed_mutex"};

struct AnyLock {
  int type = 0;
  yaclib_std::mutex m;
  yaclib_std::timed_mutex tm;
  yaclib_std::recursive_mutex rm;
  yaclib_std::recursive_timed_mutex rtm;
  yaclib_std::shared_mutex sm;
  yaclib_std::shared_timed_mutex stm;

  bool Timed() const {
    return type == tTimed || type == tRecursiveTimed || type == tSharedTimed;
  }
  bool Recursive() const {
    return type == tRecursive || type == tRecursiveTimed;
  }
  bool SharedCapable() const {
    return type == tShared || type == tSharedTimed;
  }

  void lock() {
    switch (type) {
      case tMutex:
        m.lock();
        break;
      case tTimed:
        tm.lock();
        break;
      case tRecursive:
        rm.lock();
        break;
      case tRecursiveTimed:
        rtm.lock();
        break;
      case tShared:
        sm.lock();
        break;
      default:
        stm.lock();
        break;
    }
  }
  bool try_lock() {
    switch (type) {
      case tMutex:
        return m.try_lock();
      case tTimed:
        return tm.try_lock();
      case tRecursive:
        return rm.try_lock();
      case tRecursiveTimed:
        return rtm.try_lock();
      case tShared:
        return sm.try_lock();
      default:
        return stm.try_lock();
    }
  }
  void unlock() {
    switch (type) {
      case tMutex:
        m.unlock();
        break;
      case tTimed:
        tm.unlock();
        break;
      case tRecursive:
        rm.unlock();
        break;
      case tRecursiveTimed:
        rtm.unlock();
        break;
      case tShared:
        sm.unlock();
        break;
      default:
        stm.unlock();
        break;
    }
  }
  bool try_lock_for(std::chrono::nanoseconds d) {
    switch (type) {
      case tTimed:
        return tm.try_lock_for(d);
      case tRecursiveTimed:
        return rtm.try_lock_for(d);
      default:
        return stm.try_lock_for(d);
    }
  }
  template <typename TP>
  bool try_lock_until(TP tp) {
    switch (type) {
      case tTimed:
        return tm.try_lock_until(tp);
      case tRecursiveTimed:
        return rtm.try_lock_until(tp);
      default:
        return stm.try_lock_until(tp);
    }
  }
  void lock_shared() {
    if (type == tShared) {
      sm.lock_shared();
    } else {
      stm.lock_shared();
    }
  }
  bool try_lock_shared() {
    return type == tShared ? sm.try_lock_shared() : stm.try_lock_shared();
  }
  void unlock_shared() {
    if (type == tShared) {
      sm.unlock_shared();
    } else {
      stm.unlock_shared();
    }
  }
  bool try_lock_shared_for(std::chrono::nanoseconds d) {
    return stm.try_lock_shared_for(d);
  }
  template <typename TP>
  bool try_lock_shared_until(TP tp) {
    return stm.try_lock_shared_until(tp);
  }
};

// An absolute deadline `dur_ns` from now, expressed as a time_point of the given resolution (0 ns, 1 us, 2 ms,
// 3 double seconds), handed to `call`; `deadline_ns` receives that time_point truncated to nanoseconds (never later than
// the time_point itself, so "gave up at or after the deadline" stays a sound check).
template <typename F>
auto UntilWithUnit(int unit, u32 dur_ns, long long& deadline_ns, F&& call) {
  using Clock = yaclib_std::chrono::steady_clock;
  using std::chrono::duration_cast;
  using std::chrono::nanoseconds;
  auto base = Clock::now() + nanoseconds{dur_ns};
  switch (unit) {
    case 1: {
      auto tp = std::chrono::time_point_cast<std::chrono::microseconds>(base + std::chrono::microseconds{2});
      deadline_ns = duration_cast<nanoseconds>(tp.time_since_epoch()).count();
      return call(tp);
    }
    case 2: {
      auto tp = std::chrono::time_point_cast<std::chrono::milliseconds>(base + std::chrono::milliseconds{1});
      deadline_ns = duration_cast<nanoseconds>(tp.time_since_epoch()).count();
      return call(tp);
    }
    case 3: {
      std::chrono::time_point<Clock, std::chrono::duration<double>> tp{base};
      deadline_ns = duration_cast<nanoseconds>(tp.time_since_epoch()).count() - 1;  // rounding slack of the double
      return call(tp);
    }
    default: {
      deadline_ns = duration_cast<nanoseconds>(base.time_since_epoch()).count();
      return call(base);
    }
  }
}

enum OpKind { oLock, oTry, oTryFor, oTryUntil, oLockShared, oTryShared, oTrySharedFor, oTrySharedUntil };
const char* const kOpName[] = {"lock",        "try_lock",        "try_lock_for",        "try_lock_until",
                               "lock_shared", "try_lock_shared", "try_lock_shared_for", "try_lock_shared_until"};

struct OpSpec {
  int op;
  u32 dur_ns;
  u32 hold_yields;
  u32 hold_sleep;
  int depth;  // recursive re-entry depth (1..3)
  u32 gap;
  bool partial = false;  // recursive types: release one level while still holding another, then acquire it again
  int unit = 0;          // resolution of the time_point handed to the *_until forms
};

struct World {
  Ctx* ctx;
  AnyLock lk;
  Shadow sh;
  int bad_success = 0, unjustified = 0;
};

void CheckCompat(World& w, int me, bool exclusive, const char* opname) {
  for (int i = 0; i < w.sh.nf; ++i) {
    if (i == me) {
      continue;
    }
    bool clash = w.sh.excl[i] != 0 || (exclusive && w.sh.shared[i] != 0);
    if (clash) {
      w.ctx->Fail("incompatible-holders", "C18",
                  "%s: %s by fiber %d succeeded while fiber %d is a confirmed %s holder", kTypeName[w.lk.type], opname,
                  me, i, w.sh.excl[i] != 0 ? "exclusive" : "shared");
      w.bad_success++;
      return;
    }
  }
  w.ctx->events++;
}

void RunOp(World& w, int me, const OpSpec& s) {
  auto& sh = w.sh;
  bool shared = s.op >= oLockShared;
  bool blocking = s.op == oLock || s.op == oLockShared;
  bool timed = s.op == oTryFor || s.op == oTryUntil || s.op == oTrySharedFor || s.op == oTrySharedUntil;
  int depth = (w.lk.Recursive() && !shared) ? s.depth : 1;
  int got = 0;
  for (int d = 0; d < depth; ++d) {
    bool ok = true;
    bool others_before = sh.OtherHolds(me, !shared);
    u64 act0 = sh.activity;
    long long deadline = 0;
    sh.maybe[me] = shared ? 2 : 1;
    sh.activity++;
    switch (s.op) {
      case oLock:
        w.lk.lock();
        break;
      case oTry:
        ok = w.lk.try_lock();
        break;
      case oTryFor:
        deadline = NowNs() + s.dur_ns;
        ok = w.lk.try_lock_for(std::chrono::nanoseconds{s.dur_ns});
        break;
      case oTryUntil:
        ok = UntilWithUnit(s.unit, s.dur_ns, deadline, [&](auto tp) {
          return w.lk.try_lock_until(tp);
        });
        break;
      case oLockShared:
        w.lk.lock_shared();
        break;
      case oTryShared:
        ok = w.lk.try_lock_shared();
        break;
      case oTrySharedFor:
        deadline = NowNs() + s.dur_ns;
        ok = w.lk.try_lock_shared_for(std::chrono::nanoseconds{s.dur_ns});
        break;
      default:
        ok = UntilWithUnit(s.unit, s.dur_ns, deadline, [&](auto tp) {
          return w.lk.try_lock_shared_until(tp);
        });
        break;
    }
    long long now = NowNs();
    sh.maybe[me] = 0;
    sh.activity++;
    if (ok) {
      // confirmed from here on
      CheckCompat(w, me, !shared, kOpName[s.op]);
      if (shared) {
        sh.shared[me]++;
      } else {
        sh.excl[me]++;
      }
      ++got;
      w.ctx->Class(blocking ? "blocking-acquired" : "try-acquired");
    } else {
      // failure must be justified
      bool own_reentry = d > 0;  // we hold it ourselves: a recursive try must succeed
      bool justified = !own_reentry && (others_before || sh.activity != act0 + 2);
      if (!justified) {
        w.ctx->Fail("unjustified-failure", "C18",
                    "%s: %s by fiber %d returned false although no other fiber held or was acquiring the lock during "
                    "the call%s",
                    kTypeName[w.lk.type], kOpName[s.op], me, own_reentry ? " (re-entry by the owner)" : "");
        w.unjustified++;
      }
      if (timed) {
        w.ctx->Check(now >= deadline, "timed-failure-before-deadline", "C18",
                     "%s: %s returned false at %lld ns, before its deadline %lld ns", kTypeName[w.lk.type],
                     kOpName[s.op], now, deadline);
      }
      w.ctx->Class(timed ? "timed-failed" : "try-failed");
      break;
    }
  }
  if (got != 0) {
    for (u32 i = 0; i < s.hold_yields; ++i) {
      yaclib_std::this_thread::yield();
    }
    if (s.hold_sleep != 0) {
      yaclib_std::this_thread::sleep_for(std::chrono::nanoseconds{s.hold_sleep});
    }
    // still the holder?
    CheckCompat(w, me, !shared, "hold");
  }
  if (s.partial && w.lk.Recursive() && !shared && got >= 2) {
    // partial unlock: we still own one level, so we are still the owner and the next acquisition is a re-entry
    sh.excl[me]--;
    sh.activity++;
    w.lk.unlock();
    sh.activity++;
    for (u32 i = 0; i < s.hold_yields; ++i) {
      yaclib_std::this_thread::yield();
    }
    CheckCompat(w, me, true, "hold after partial unlock");
    bool ok = true;
    switch (s.op) {
      case oLock:
        w.lk.lock();  // a lost owner blocks here forever: reported as parked-at-quiescence
        break;
      case oTry:
        ok = w.lk.try_lock();
        break;
      case oTryFor:
        ok = w.lk.try_lock_for(std::chrono::nanoseconds{s.dur_ns});
        break;
      default:
        ok = w.lk.try_lock_until(yaclib_std::chrono::steady_clock::now() + std::chrono::nanoseconds{s.dur_ns});
        break;
    }
    if (ok) {
      sh.excl[me]++;
      w.ctx->Class("reacquired-after-partial-unlock");
    } else {
      --got;
      w.ctx->Fail("unjustified-failure", "C18",
                  "%s: %s by fiber %d returned false although this fiber still owns the lock (it released one of %d levels)",
                  kTypeName[w.lk.type], kOpName[s.op], me, got + 1);
      w.unjustified++;
    }
  }
  for (int d = 0; d < got; ++d) {
    if (shared) {
      sh.shared[me]--;
    } else {
      sh.excl[me]--;
    }
    sh.maybe[me] = shared ? 2 : 1;
    sh.activity++;
    if (shared) {
      w.lk.unlock_shared();
    } else {
      w.lk.unlock();
    }
    sh.maybe[me] = 0;
    sh.activity++;
  }
  for (u32 i = 0; i < s.gap; ++i) {
    yaclib_std::this_thread::yield();
  }
}

void LockCase(Ctx& ctx, int type) {
  World w;
  w.ctx = &ctx;
  w.lk.type = type;
  int nf = static_cast<int>(ctx.rng.In(2, 5));
  w.sh.nf = nf;
  std::vector<std::vector<OpSpec>> plans(static_cast<std::size_t>(nf));
  for (auto& p : plans) {
    int len = static_cast<int>(ctx.rng.In(2, 6));
    for (int i = 0; i < len; ++i) {
      OpSpec s;
      std::vector<int> ops = {oLock, oTry};
      if (w.lk.Timed()) {
        ops.push_back(oTryFor);
        ops.push_back(oTryUntil);
        ops.push_back(oTryFor);
      }
      if (w.lk.SharedCapable()) {
        ops.push_back(oLockShared);
        ops.push_back(oTryShared);
        ops.push_back(oLockShared);
        if (w.lk.Timed()) {
          ops.push_back(oTrySharedFor);
          ops.push_back(oTrySharedUntil);
        }
      }
      s.op = ops[ctx.rng.Below(static_cast<u32>(ops.size()))];
      s.dur_ns = ctx.rng.Below(4) == 0 ? 0 : ctx.rng.Below(600);
      s.hold_yields = ctx.rng.Below(4);
      s.hold_sleep = ctx.rng.Below(3) == 0 ? ctx.rng.Below(300) : 0;
      s.depth = static_cast<int>(ctx.rng.In(1, 3));
      s.gap = ctx.rng.Below(3);
      s.partial = ctx.rng.Below(3) == 0;
      s.unit = static_cast<int>(ctx.rng.Below(4));
      p.push_back(s);
    }
  }
  ctx.Note("%s, %d fibers, ops: ", kTypeName[type], nf);
  for (auto& p : plans) {
    for (auto& s : p) {
      ctx.Note("%s ", kOpName[s.op]);
    }
    ctx.Note("| ");
  }
  {
    std::vector<yaclib_std::thread> ts;
    for (int f = 0; f < nf; ++f) {
      ts.emplace_back([&, f] {
        for (auto& s : plans[static_cast<std::size_t>(f)]) {
          RunOp(w, f, s);
        }
      });
    }
    for (auto& t : ts) {
      t.join();
    }
  }
  ctx.SetNontrivial(true);
  // everybody released: the lock must be free now
  bool free_now = w.lk.try_lock();
  ctx.Check(free_now, "not-free-at-end", "C18", "%s: try_lock fails after every fiber released everything",
            kTypeName[type]);
  if (free_now) {
    w.lk.unlock();
  }
}

// ------------------------------------------------------------------------------------------------
// condition variables

void CondvarCase(Ctx& ctx) {
  int form = static_cast<int>(ctx.rng.Below(6));  // wait, wait(pred), wait_for, wait_for(pred), wait_until, wait_until(pred)
  int nw = static_cast<int>(ctx.rng.In(1, 3));
  bool notify_all = ctx.rng.Coin();
  u32 dur = ctx.rng.Below(3) == 0 ? ctx.rng.Below(120) : 2000 + ctx.rng.Below(2000);
  u32 njit = ctx.rng.Below(8);
  u32 hold = ctx.rng.Below(4);
  // single-shot: the notifier waits until every waiter has registered under the mutex (so it is blocked in wait, which
  // releases the mutex and blocks atomically, or has already returned), then changes the state under the mutex and
  // notifies exactly once.  Nothing compensates for a lost notification then: an untimed waiter stays parked.
  bool single_shot = ctx.rng.Coin();
  int unit = static_cast<int>(ctx.rng.Below(4));  // resolution of the time_point of the wait_until forms
  static const char* const kForm[] = {"wait", "wait(pred)", "wait_for", "wait_for(pred)", "wait_until", "wait_until(pred)"};
  ctx.Note("condition_variable %s x%d waiters, %s %s after %u yields, timeout %u ns", kForm[form], nw,
           notify_all ? "notify_all" : "notify_one per waiter", single_shot ? "exactly once" : "repeated", njit, dur);
  yaclib_std::mutex m;
  yaclib_std::condition_variable cv;
  int waiting = 0;
  bool flag = false;
  int woke = 0;
  int timeouts = 0;
  std::vector<long long> deadline(static_cast<std::size_t>(nw), 0), ret_at(static_cast<std::size_t>(nw), 0);
  std::vector<int> timed_out(static_cast<std::size_t>(nw), 0);
  std::vector<int> pred_result(static_cast<std::size_t>(nw), -1);
  {
    std::vector<yaclib_std::thread> ts;
    for (int i = 0; i < nw; ++i) {
      ts.emplace_back([&, i] {
        auto k = static_cast<std::size_t>(i);
        std::unique_lock lk{m};
        ++waiting;
        auto pred = [&] {
          return flag;
        };
        switch (form) {
          case 0:
            cv.wait(lk);
            break;
          case 1:
            cv.wait(lk, pred);
            pred_result[k] = 1;
            break;
          case 2:
            deadline[k] = NowNs() + dur;
            timed_out[k] = cv.wait_for(lk, std::chrono::nanoseconds{dur}) == std::cv_status::timeout;
            break;
          case 3:
            deadline[k] = NowNs() + dur;
            pred_result[k] = cv.wait_for(lk, std::chrono::nanoseconds{dur}, pred) ? 1 : 0;
            break;
          case 4:
            timed_out[k] = UntilWithUnit(unit, dur, deadline[k], [&](auto tp) {
              return cv.wait_until(lk, tp) == std::cv_status::timeout;
            });
            break;
          default:
            pred_result[k] = UntilWithUnit(unit, dur, deadline[k], [&](auto tp) {
              return cv.wait_until(lk, tp, pred) ? 1 : 0;
            });
            break;
        }
        ret_at[k] = NowNs();
        if (!lk.owns_lock()) {
          ctx.Fail("wait-returns-unlocked", "C18", "condition_variable::%s returned without owning the lock", kForm[form]);
        }
        if (pred_result[k] == 1 && !flag) {
          ctx.Fail("pred-true-but-false", "C18", "%s returned true/returned although the predicate is false", kForm[form]);
        }
        // the timed predicate forms return pred(): we own the lock here, so `flag` is exactly what pred() yields
        if (pred_result[k] == 0 && flag) {
          ctx.Fail("pred-false-but-true", "C18", "%s returned false although the predicate is true under the waiter's lock",
                   kForm[form]);
        }
        ++woke;
        --waiting;
      });
    }
    ts.emplace_back([&] {
      for (u32 i = 0; i < njit; ++i) {
        yaclib_std::this_thread::yield();
      }
      // Notify only waiters that are provably blocked: they registered under the mutex and released it by waiting.
      // Keep going until every waiter has returned; give up after a bounded number of rounds so that a waiter that
      // a notification fails to wake stays parked and is reported by the deadlock detector (not a livelock).
      for (int spins = 0; spins < 3000; ++spins) {
        std::unique_lock lk{m};
        if (woke == nw) {
          break;
        }
        int blocked_now = waiting;
        if (single_shot) {
          if (waiting + woke != nw) {
            lk.unlock();
            yaclib_std::this_thread::yield();
            continue;  // somebody has not reached its wait yet
          }
          flag = true;
          for (u32 h = 0; h < hold; ++h) {
            yaclib_std::this_thread::yield();
          }
          lk.unlock();
          if (notify_all) {
            cv.notify_all();
          } else {
            for (int k = 0; k < blocked_now; ++k) {
              cv.notify_one();
            }
          }
          break;
        }
        if (blocked_now != 0) {
          flag = true;
          for (u32 h = 0; h < hold; ++h) {
            yaclib_std::this_thread::yield();
          }
          lk.unlock();
          if (notify_all) {
            cv.notify_all();
          } else {
            for (int k = 0; k < blocked_now; ++k) {
              cv.notify_one();
            }
          }
        } else {
          lk.unlock();
        }
        yaclib_std::this_thread::yield();
      }
    });
    for (auto& t : ts) {
      t.join();
    }
  }
  ctx.SetNontrivial(true);
  ctx.Check(woke == nw, "waiter-not-woken", "C18", "%d of %d waiters returned from %s", woke, nw, kForm[form]);
  for (int i = 0; i < nw; ++i) {
    auto k = static_cast<std::size_t>(i);
    if (timed_out[k] != 0 || pred_result[k] == 0) {
      ++timeouts;
      ctx.Check(ret_at[k] >= deadline[k], "timed-wait-before-deadline", "C18",
                "%s reported a timeout at %lld ns, before its deadline %lld ns", kForm[form], ret_at[k], deadline[k]);
    }
  }
  ctx.Class(timeouts != 0 ? "some-timeout" : "all-notified");
}

// ------------------------------------------------------------------------------------------------
// threads and thread-locals

static YACLIB_THREAD_LOCAL_PTR(int) tls_marker;
static int g_tls_default = 0;
// a thread-local pointer with a non-null initial value: every new fiber starts with it, a stored nullptr is a value too
static YACLIB_THREAD_LOCAL_PTR(int) tls_init{&g_tls_default};

void ThreadCase(Ctx& ctx) {
  int n = static_cast<int>(ctx.rng.In(1, 4));
  std::vector<int> finished(static_cast<std::size_t>(n), 0);
  std::vector<int> slots(static_cast<std::size_t>(n), 0);
  std::vector<int> tls_ok(static_cast<std::size_t>(n), 1);
  std::vector<u32> work;
  std::vector<u32> plan;
  for (int i = 0; i < n; ++i) {
    work.push_back(ctx.rng.Below(6));
    plan.push_back(static_cast<u32>(ctx.rng.Next()));
  }
  ctx.Note("%d threads: join-after-finish and per-fiber thread-local pointers (one with a non-null initial value, stores of nullptr)", n);
  int main_slot = -1;
  tls_marker = &main_slot;
  {
    std::vector<yaclib_std::thread> ts;
    for (int i = 0; i < n; ++i) {
      ts.emplace_back([&, i] {
        auto k = static_cast<std::size_t>(i);
        tls_marker = &slots[k];
        // model of this fiber's view of tls_init: starts with the initializer, then whatever it stored last
        int* model = &g_tls_default;
        if (tls_init.Get() != model) {
          tls_ok[k] = 0;
        }
        u32 pattern = plan[k];
        for (u32 y = 0; y < work[k]; ++y) {
          u32 step = (pattern >> (2 * y)) & 3U;
          if (step == 1) {
            model = &slots[k];
            tls_init = model;
          } else if (step == 2) {
            model = nullptr;
            tls_init = model;
          }
          yaclib_std::this_thread::yield();
          if (tls_marker.Get() != &slots[k] || tls_init.Get() != model) {
            tls_ok[k] = 0;
          }
        }
        yaclib_std::this_thread::sleep_for(std::chrono::nanoseconds{work[k] * 10});
        if (tls_marker.Get() != &slots[k]) {
          tls_ok[k] = 0;
        }
        finished[k] = 1;
      });
    }
    for (int i = 0; i < n; ++i) {
      auto k = static_cast<std::size_t>(i);
      ctx.Check(ts[k].joinable(), "joinable", "C18", "a started thread is not joinable from its parent");
      ts[k].join();
      ctx.Check(finished[k] == 1, "join-before-finish", "C18", "thread::join returned before the thread function finished");
    }
  }
  for (int i = 0; i < n; ++i) {
    ctx.Check(tls_ok[static_cast<std::size_t>(i)] == 1, "tls-not-per-fiber", "C18",
              "fiber %d read a thread-local pointer that is not what this fiber stored last (or the initial value)", i);
  }
  ctx.Check(tls_marker.Get() == &main_slot, "tls-not-per-fiber", "C18",
            "the parent's thread-local pointer was overwritten by a child");
  tls_marker = nullptr;
  ctx.SetNontrivial(n >= 2);
}

}  // namespace

VF_CELL(l_mutex, "mutex", "C18", 10) {
  LockCase(ctx, tMutex);
}
VF_CELL(l_timed, "timed_mutex", "C18", 10) {
  LockCase(ctx, tTimed);
}
VF_CELL(l_rec, "recursive_mutex", "C18", 10) {
  LockCase(ctx, tRecursive);
}
VF_CELL(l_rect, "recursive_timed_mutex", "C18", 10) {
  LockCase(ctx, tRecursiveTimed);
}
VF_CELL(l_sh, "shared_mutex", "C18", 10) {
  LockCase(ctx, tShared);
}
VF_CELL(l_sht, "shared_timed_mutex", "C18", 10) {
  LockCase(ctx, tSharedTimed);
}
VF_CELL(l_cv, "condition_variable", "C18", 12) {
  CondvarCase(ctx);
}
VF_CELL(l_thread, "thread-and-tls", "C18", 4) {
  ThreadCase(ctx);
}

#endif  // VF_FIBER

int main(int argc, char** argv) {
  return vf::Main(argc, argv, "stdlocks");
}
