// fam_wait — C11 (Wait / WaitFor / WaitUntil); also feeds C01, C03, C04.
//
// n producers sleep a random (virtual, in fiber mode) duration and fulfil; the waiter's deadline falls before, between
// or after the completions.  After the wait every future is consumed by a random consumer kind and must still deliver
// its result exactly once.  "No touch after return" is watched by ASan (detect_stack_use_after_return) and by an
// instrumented Event type passed as the Wait* template argument.
#include "vf_exec.hpp"

#include <yaclib/async/contract.hpp>
#include <yaclib/async/shared_contract.hpp>
#include <yaclib/async/wait.hpp>
#include <yaclib/async/wait_for.hpp>
#include <yaclib/async/wait_until.hpp>

#include <yaclib_std/chrono>

#include <vector>

using namespace vf;
using yaclib::Result;

namespace {

inline void Jitter(u32 n) {
#if VF_FIBER
  for (u32 i = 0; i < n; ++i) {
    yaclib_std::this_thread::yield();
  }
#else
  for (volatile u32 i = 0; i < n * 40; ++i) {
  }
#endif
}

// ---- instrumented event: registry of live event objects -----------------------------------------------------------
struct EventRegistry {
  std::atomic<const void*> live[32];
  std::atomic<int> bad_set{0};
  std::atomic<int> sets{0};
  void Add(const void* p) {
    for (auto& s : live) {
      const void* e = nullptr;
      if (s.load(kRlx) == nullptr && s.compare_exchange_strong(e, p, kRlx)) {
        return;
      }
    }
  }
  void Remove(const void* p) {
    for (auto& s : live) {
      if (s.load(kRlx) == p) {
        s.store(nullptr, kRlx);
        return;
      }
    }
  }
  bool Has(const void* p) {
    for (auto& s : live) {
      if (s.load(kRlx) == p) {
        return true;
      }
    }
    return false;
  }
};
EventRegistry g_events;

struct SpyEvent : yaclib::detail::MutexEvent {
  SpyEvent() {
    g_events.Add(this);
  }
  ~SpyEvent() {
    g_events.Remove(this);
  }
  void Set() noexcept {
    g_events.sets.fetch_add(1, kRlx);
    if (!g_events.Has(this)) {
      g_events.bad_set.fetch_add(1, kRlx);  // a completion touched the waiter's event after the wait call returned
      return;
    }
    yaclib::detail::MutexEvent::Set();
  }
};

enum InKind { kVal = 0, kErr = 1, kExc = 2, kDropP = 3 };

struct In {
  int kind = 0;
  int code = 0;
  u32 sleep_ns = 0;
  u32 jit = 0;
  bool shared = false;
  int consumer = 0;
  u64 set_call = 0, set_ret = 0;
  int side = 0;
  // observation
  std::atomic<int> calls{0};
  int state = -9, ocode = 0;
  bool fresh = true;
  int oside = -1;
};

struct Chan {
  yaclib::Future<Tracked, MyError> uf;
  yaclib::Promise<Tracked, MyError> up;
  yaclib::SharedFuture<Tracked, MyError> sf;
  yaclib::SharedPromise<Tracked, MyError> sp;
};

template <typename P>
void SetTo(P&& p, const In& s) {
  if (s.kind == kVal) {
    std::move(p).Set(Tracked{s.code});
  } else if (s.kind == kErr) {
    std::move(p).Set(MyError{s.code});
  } else if (s.kind == kExc) {
    std::move(p).Set(std::make_exception_ptr(MyException{s.code}));
  } else {
    auto q = std::move(p);
  }
}

void Fulfil(Chan& c, In& s) {
  if (s.sleep_ns != 0) {
    yaclib_std::this_thread::sleep_for(std::chrono::nanoseconds{s.sleep_ns});
  }
  Jitter(s.jit);
  VF_W(s.side, "C04,C11");
  s.side = s.code;
  s.set_call = Stamp();
  if (s.shared) {
    SetTo(std::move(c.sp), s);
  } else {
    SetTo(std::move(c.up), s);
  }
  s.set_ret = Stamp();
}

void Digest(In& s, const Result<Tracked, MyError>& r) {
  VF_R(s.side, "C04,C11");
  s.oside = s.side;
  s.state = static_cast<int>(r.State());
  if (s.state == 0) {
    s.ocode = r.Value().v;
    s.fresh = r.Value().Fresh();
  } else if (s.state == 1) {
    try {
      std::rethrow_exception(r.Exception());
    } catch (const MyException& e) {
      s.ocode = e.code;
    } catch (...) {
      s.ocode = -777;
    }
  } else if (s.state == 2) {
    s.ocode = r.Error().code;
  }
  s.calls.fetch_add(1, kRlx);
}

enum WaitKind { wWait = 0, wFor = 1, wUntil = 2 };
enum Form { fSingle = 0, fVariadic = 1, fIter = 2 };
const char* const kWaitName[] = {"Wait", "WaitFor", "WaitUntil"};
const char* const kFormName[] = {"single", "variadic", "iterator"};

template <typename... Fs>
bool DoWait(int wk, std::chrono::nanoseconds dur, Fs&... fs) {
  if (wk == wWait) {
    yaclib::Wait<SpyEvent>(fs...);
    return true;
  }
  if constexpr ((... && yaclib::is_waitable_with_timeout_v<Fs&>)) {
    if (wk == wFor) {
      return yaclib::WaitFor<SpyEvent>(dur, fs...);
    }
    return yaclib::WaitUntil<SpyEvent>(yaclib_std::chrono::steady_clock::now() + dur, fs...);
  } else {
    return true;
  }
}

template <typename It>
bool DoWaitIter(int wk, std::chrono::nanoseconds dur, It begin, std::size_t n, bool use_end) {
  if (wk == wWait) {
    if (use_end) {
      yaclib::Wait<SpyEvent>(begin, begin + static_cast<std::ptrdiff_t>(n));
    } else {
      yaclib::Wait<SpyEvent>(begin, n);
    }
    return true;
  }
  if constexpr (yaclib::is_waitable_with_timeout_v<typename std::iterator_traits<It>::reference>) {
    if (wk == wFor) {
      return use_end ? yaclib::WaitFor<SpyEvent>(dur, begin, begin + static_cast<std::ptrdiff_t>(n))
                     : yaclib::WaitFor<SpyEvent>(dur, begin, n);
    }
    auto tp = yaclib_std::chrono::steady_clock::now() + dur;
    return use_end ? yaclib::WaitUntil<SpyEvent>(tp, begin, begin + static_cast<std::ptrdiff_t>(n))
                   : yaclib::WaitUntil<SpyEvent>(tp, begin, n);
  } else {
    return true;
  }
}

void WaitCase(Ctx& ctx, int wk, int form, int shared_mode) {
  int n = form == fSingle ? 1 : static_cast<int>(ctx.rng.In(2, 4));
  if (form == fIter && ctx.rng.Below(5) == 0) {
    n = 1;
  }
  std::vector<In> in(static_cast<std::size_t>(n));
  std::vector<Chan> ch(static_cast<std::size_t>(n));
  u32 horizon = ctx.rng.Coin() ? 400 : 2500;
  for (int i = 0; i < n; ++i) {
    auto& s = in[static_cast<std::size_t>(i)];
    s.kind = static_cast<int>(ctx.rng.Below(4));
    s.code = 1000 * (i + 1) + static_cast<int>(ctx.rng.Below(1000));
    s.sleep_ns = ctx.rng.Below(3) == 0 ? 0 : ctx.rng.Below(horizon);
    s.jit = ctx.rng.Below(4);
    s.shared = shared_mode == 1 || (shared_mode == 2 && (i % 2 == 1));
    s.consumer = static_cast<int>(ctx.rng.Below(4));
    auto& c = ch[static_cast<std::size_t>(i)];
    if (s.shared) {
      auto [f, p] = yaclib::MakeSharedContract<Tracked, MyError>();
      c.sf = std::move(f);
      c.sp = std::move(p);
    } else {
      auto [f, p] = yaclib::MakeContract<Tracked, MyError>();
      c.uf = std::move(f);
      c.up = std::move(p);
    }
  }
  u32 dur_ns = ctx.rng.Below(4) == 0 ? 0 : ctx.rng.Below(horizon + 200);
  // focus mode (timed waits): completions are concentrated around the deadline, one producer is surely late, so the
  // timeout lands inside the window "producer already published the result but is still inside the completion call"
  bool focus = wk != wWait && ctx.rng.Below(5) < 3;
  if (focus) {
    dur_ns = 300 + ctx.rng.Below(500);
    int late = n > 1 ? static_cast<int>(ctx.rng.Below(static_cast<u32>(n))) : -1;
    for (int i = 0; i < n; ++i) {
      auto& s = in[static_cast<std::size_t>(i)];
      s.sleep_ns = i == late ? dur_ns + 1500 + ctx.rng.Below(500) : dur_ns - 150 + ctx.rng.Below(420);
    }
  }
  bool use_end = ctx.rng.Coin();
  u32 wjit = ctx.rng.Below(4);
  // other consumers of the shared inputs: a callback registered before the wait, and (all-shared, n >= 2) a second
  // thread waiting on the same futures in the opposite order; the wait must neither disturb them nor be disturbed
  struct PreSub {
    bool on = false;
    int calls = 0;
    int state = -9, code = 0;
    bool fresh = true;
  };
  std::vector<PreSub> pre(static_cast<std::size_t>(n));
  int npre = 0;
  for (int i = 0; i < n; ++i) {
    pre[static_cast<std::size_t>(i)].on = in[static_cast<std::size_t>(i)].shared && ctx.rng.Below(3) == 0;
    npre += pre[static_cast<std::size_t>(i)].on;
  }
  bool second_waiter = shared_mode == 1 && n >= 2 && ctx.rng.Below(4) == 0;
  yaclib::SharedFuture<Tracked, MyError> w2a, w2b;
  bool w2_ok = true;
  u32 w2jit = ctx.rng.Below(4);
  if (second_waiter) {
    w2a = ch[1].sf;
    w2b = ch[0].sf;
  }
  ctx.Note("%s %s n=%d shared_mode=%d%s%s%s deadline=%uns producers(sleep ns)=[", kWaitName[wk], kFormName[form], n,
           shared_mode, focus ? " focus" : "", npre != 0 ? " pre-subscribed" : "", second_waiter ? " second-waiter" : "", dur_ns);
  for (auto& s : in) {
    ctx.Note("%u%s ", s.sleep_ns, s.shared ? "S" : "U");
  }
  ctx.Note("] ");
  g_events.bad_set.store(0, kRlx);

  bool ret = true;
  u64 wait_call = 0, wait_ret = 0;
  long long now_after_ns = 0, deadline_ns = 0;
  std::vector<bool> ready_at_ret(static_cast<std::size_t>(n), false);
  {
    std::vector<yaclib_std::thread> ts;
    for (int i = 0; i < n; ++i) {
      ts.emplace_back([&, i] {
        Fulfil(ch[static_cast<std::size_t>(i)], in[static_cast<std::size_t>(i)]);
      });
    }
    if (second_waiter) {
      ts.emplace_back([&] {
        Jitter(w2jit);
        yaclib::Wait(w2a, w2b);
        w2_ok = w2a.Ready() && w2b.Ready();
        w2a = {};
        w2b = {};
      });
    }
    ts.emplace_back([&] {
      Jitter(wjit);
      for (int i = 0; i < n; ++i) {
        auto& ps = pre[static_cast<std::size_t>(i)];
        if (ps.on) {
          ch[static_cast<std::size_t>(i)].sf.SubscribeInline([&ps](const Result<Tracked, MyError>& r) {
            ps.state = static_cast<int>(r.State());
            if (ps.state == 0) {
              ps.code = r.Value().v;
              ps.fresh = r.Value().Fresh();
            } else if (ps.state == 2) {
              ps.code = r.Error().code;
            }
            ++ps.calls;
          });
        }
      }
      auto dur = std::chrono::nanoseconds{dur_ns};
      auto t0 = yaclib_std::chrono::steady_clock::now();
      deadline_ns = std::chrono::duration_cast<std::chrono::nanoseconds>((t0 + dur).time_since_epoch()).count();
      wait_call = Stamp();
      auto& c = ch;
      if (form == fIter) {
        if (shared_mode == 1) {
          std::vector<yaclib::SharedFuture<Tracked, MyError>> v;
          for (auto& x : c) {
            v.push_back(x.sf);
          }
          ret = DoWaitIter(wk, dur, v.begin(), v.size(), use_end);
        } else {
          std::vector<yaclib::Future<Tracked, MyError>> v;
          for (auto& x : c) {
            v.push_back(std::move(x.uf));
          }
          ret = DoWaitIter(wk, dur, v.begin(), v.size(), use_end);
          for (std::size_t i = 0; i < v.size(); ++i) {
            c[i].uf = std::move(v[i]);
          }
        }
      } else if (shared_mode == 0) {
        switch (n) {
          case 1:
            ret = DoWait(wk, dur, c[0].uf);
            break;
          case 2:
            ret = DoWait(wk, dur, c[0].uf, c[1].uf);
            break;
          case 3:
            ret = DoWait(wk, dur, c[0].uf, c[1].uf, c[2].uf);
            break;
          default:
            ret = DoWait(wk, dur, c[0].uf, c[1].uf, c[2].uf, c[3].uf);
            break;
        }
      } else if (shared_mode == 1) {
        switch (n) {
          case 1:
            ret = DoWait(wk, dur, c[0].sf);
            break;
          case 2:
            ret = DoWait(wk, dur, c[0].sf, c[1].sf);
            break;
          case 3:
            ret = DoWait(wk, dur, c[0].sf, c[1].sf, c[2].sf);
            break;
          default:
            ret = DoWait(wk, dur, c[0].sf, c[1].sf, c[2].sf, c[3].sf);
            break;
        }
      } else {
        switch (n) {
          case 2:
            ret = DoWait(wk, dur, c[0].uf, c[1].sf);
            break;
          case 3:
            ret = DoWait(wk, dur, c[0].uf, c[1].sf, c[2].uf);
            break;
          default:
            ret = DoWait(wk, dur, c[0].uf, c[1].sf, c[2].uf, c[3].sf);
            break;
        }
      }
      for (int i = 0; i < n; ++i) {
        auto& s = in[static_cast<std::size_t>(i)];
        ready_at_ret[static_cast<std::size_t>(i)] =
          s.shared ? c[static_cast<std::size_t>(i)].sf.Ready() : c[static_cast<std::size_t>(i)].uf.Ready();
      }
      wait_ret = Stamp();
      now_after_ns = std::chrono::duration_cast<std::chrono::nanoseconds>(
                       yaclib_std::chrono::steady_clock::now().time_since_epoch())
                       .count();
      // --- consume every future: it must still deliver exactly once
      for (int i = 0; i < n; ++i) {
        auto& s = in[static_cast<std::size_t>(i)];
        auto& x = c[static_cast<std::size_t>(i)];
        if (s.shared) {
          switch (s.consumer) {
            case 0:
              Digest(s, std::as_const(x.sf).Get());
              break;
            case 1:
              x.sf.SubscribeInline([&s](const Result<Tracked, MyError>& r) {
                Digest(s, r);
              });
              yaclib::Wait(x.sf);
              break;
            case 2: {
              auto copy = x.sf;
              Digest(s, std::move(copy).Get());
            } break;
            default:
              yaclib::Wait<SpyEvent>(x.sf);
              Digest(s, std::as_const(x.sf).Touch());
              break;
          }
          x.sf = {};
        } else {
          switch (s.consumer) {
            case 0: {
              auto r = std::move(x.uf).Get();
              Digest(s, r);
            } break;
            case 1: {
              yaclib::Wait<SpyEvent>(x.uf);
              auto r = std::move(x.uf).Touch();
              Digest(s, r);
            } break;
            case 2: {
              auto done = std::move(x.uf).ThenInline([&s](Result<Tracked, MyError>&& r) {
                Digest(s, r);
              });
              yaclib::Wait(done);
            } break;
            default: {
              bool again = yaclib::WaitFor<SpyEvent>(std::chrono::nanoseconds{dur_ns / 2}, x.uf);
              if (again && !x.uf.Ready()) {
                s.calls.fetch_add(100, kRlx);  // flagged below
              }
              auto r = std::move(x.uf).Get();
              Digest(s, r);
            } break;
          }
        }
      }
    });
    for (auto& t : ts) {
      t.join();
    }
  }
  // ---- oracles
  int nready = 0;
  for (int i = 0; i < n; ++i) {
    nready += ready_at_ret[static_cast<std::size_t>(i)] ? 1 : 0;
  }
  bool overlapped = false;
  for (auto& s : in) {
    if (s.set_call < wait_ret && wait_call < s.set_ret) {
      overlapped = true;
    }
  }
  ctx.SetNontrivial(overlapped || (nready != 0 && nready != n));
  ctx.Class(ret ? "returned-true" : (nready == 0 ? "timeout-none-ready" : "timeout-some-ready"));
  ctx.Observe(static_cast<u64>(nready) * 7 + (ret ? 1 : 0));
  if (wk == wWait || ret) {
    for (int i = 0; i < n; ++i) {
      auto& s = in[static_cast<std::size_t>(i)];
      ctx.Check(ready_at_ret[static_cast<std::size_t>(i)], "returned-before-ready", "C11",
                "%s returned%s but future %d was not Ready", kWaitName[wk], wk == wWait ? "" : " true", i);
      ctx.Check(s.set_call != 0 && s.set_call < wait_ret, "returned-before-ready", "C11",
                "%s returned (t=%llu) before producer %d even began to fulfil (t=%llu)", kWaitName[wk],
                (unsigned long long)wait_ret, i, (unsigned long long)s.set_call);
    }
  } else {
    ctx.Check(now_after_ns >= deadline_ns, "false-before-deadline", "C11",
              "%s returned false at now=%lld ns, before the deadline %lld ns", kWaitName[wk], now_after_ns, deadline_ns);
  }
  for (int i = 0; i < n; ++i) {
    auto& s = in[static_cast<std::size_t>(i)];
    int calls = s.calls.load(kRlx);
    ctx.Check(calls == 1, "delivers-exactly-once", "C11,C01", "future %d delivered %d times after the wait (consumer %d)",
              i, calls, s.consumer);
    if (calls == 1) {
      int ws = s.kind == kVal ? 0 : s.kind == kExc ? 1 : 2;
      int wc = s.kind == kDropP ? -1 : s.code;
      ctx.Check(s.state == ws && s.ocode == wc && s.fresh, "result-intact", "C11,C01",
                "future %d delivered state=%d code=%d fresh=%d, producer set state=%d code=%d", i, s.state, s.ocode,
                (int)s.fresh, ws, wc);
      ctx.Check(s.oside == s.code, "visibility", "C11,C04", "consumer of future %d read side=%d, expected %d", i, s.oside,
                s.code);
    }
  }
  for (int i = 0; i < n; ++i) {
    auto& ps = pre[static_cast<std::size_t>(i)];
    auto& s = in[static_cast<std::size_t>(i)];
    if (ps.on) {
      ctx.Check(ps.calls == 1, "co-subscriber-exactly-once", "C11,C06",
                "a callback registered on shared future %d before the wait ran %d times", i, ps.calls);
      if (ps.calls == 1 && s.kind != kExc) {
        int ws = s.kind == kVal ? 0 : 2;
        int wc = s.kind == kDropP ? -1 : s.code;
        ctx.Check(ps.state == ws && ps.code == wc && ps.fresh, "co-subscriber-value", "C11,C06",
                  "the callback registered on shared future %d before the wait saw state=%d code=%d, producer set state=%d code=%d",
                  i, ps.state, ps.code, ws, wc);
      }
    }
  }
  if (npre != 0 || second_waiter) {
    ctx.Class("shared-input-has-other-consumers");
  }
  ctx.Check(w2_ok, "returned-before-ready", "C11", "a second Wait on the same shared futures returned before both were Ready");
  ctx.Check(g_events.bad_set.load(kRlx) == 0, "touch-after-return", "C11",
            "%d completions called Set() on a waiter event that no longer exists", g_events.bad_set.load(kRlx));
}

}  // namespace

VF_CELL(wait_single_u, "wait/single-unique", "C11,C03,C04", 6) {
  WaitCase(ctx, wWait, fSingle, 0);
}
VF_CELL(wait_single_s, "wait/single-shared", "C11,C03,C06", 6) {
  WaitCase(ctx, wWait, fSingle, 1);
}
VF_CELL(wait_var_u, "wait/variadic-unique", "C11,C03,C04", 8) {
  WaitCase(ctx, wWait, fVariadic, 0);
}
VF_CELL(wait_var_s, "wait/variadic-shared", "C11,C03,C06", 8) {
  WaitCase(ctx, wWait, fVariadic, 1);
}
VF_CELL(wait_var_m, "wait/variadic-mixed", "C11,C03,C06", 8) {
  WaitCase(ctx, wWait, fVariadic, 2);
}
VF_CELL(wait_iter_u, "wait/iterator-unique", "C11,C03", 8) {
  WaitCase(ctx, wWait, fIter, 0);
}
VF_CELL(wait_iter_s, "wait/iterator-shared", "C11,C03,C06", 8) {
  WaitCase(ctx, wWait, fIter, 1);
}
VF_CELL(waitfor_single, "waitfor/single", "C11,C03,C04", 14) {
  WaitCase(ctx, wFor, fSingle, 0);
}
VF_CELL(waitfor_var, "waitfor/variadic", "C11,C03,C04", 18) {
  WaitCase(ctx, wFor, fVariadic, 0);
}
VF_CELL(waitfor_iter, "waitfor/iterator", "C11,C03", 14) {
  WaitCase(ctx, wFor, fIter, 0);
}
VF_CELL(waituntil_single, "waituntil/single", "C11,C03", 8) {
  WaitCase(ctx, wUntil, fSingle, 0);
}
VF_CELL(waituntil_var, "waituntil/variadic", "C11,C03", 10) {
  WaitCase(ctx, wUntil, fVariadic, 0);
}
VF_CELL(waituntil_iter, "waituntil/iterator", "C11,C03", 8) {
  WaitCase(ctx, wUntil, fIter, 0);
}

int main(int argc, char** argv) {
  return vf::Main(argc, argv, "wait");
}
