// fam_wg — C16 (WaitGroup / OneShotEvent); also feeds C03, C04, C13.
#include "vf_exec.hpp"

#include <yaclib/algo/one_shot_event.hpp>
#include <yaclib/algo/wait_group.hpp>
#include <yaclib/async/contract.hpp>
#include <yaclib/coro/await.hpp>
#include <yaclib/coro/future.hpp>
#include <yaclib/coro/on.hpp>

#include <yaclib_std/chrono>

#include <deque>
#include <vector>

using namespace vf;
using yaclib::Result;

namespace {

inline void Jitter(u32 n) {
#if VF_FIBER
  for (u32 i = 0; i < n; ++i) {
    yaclib_std::this_thread::yield();
  }
#else
  for (volatile u32 i = 0; i < n * 40; ++i) {
  }
#endif
}

inline void SleepNs(u32 ns) {
  if (ns != 0) {
    yaclib_std::this_thread::sleep_for(std::chrono::nanoseconds{ns});
  }
}

inline long long NowNs() {
  return std::chrono::duration_cast<std::chrono::nanoseconds>(yaclib_std::chrono::steady_clock::now().time_since_epoch())
    .count();
}

enum WaiterKind { kWait, kWaitFor, kWaitUntil, kCoInline, kCoSticky, kCoOn, kWaiterKinds };
const char* const kWaiterName[] = {"Wait", "WaitFor", "WaitUntil", "co_await", "AwaitSticky", "AwaitOn"};

struct Waiter {
  int kind = 0;
  u32 sleep_ns = 0, jit = 0, dur_ns = 0;
  bool late = false;
  // observations
  std::atomic<int> released{0};
  long done_seen = -1;
  bool timed_result = true;
  long long now_after = 0, deadline = 0;
  int tag = -1;
  int side_seen = 0;
  u64 at = 0;
};

struct FutSpec {
  bool consume = false;
  bool ready_before = false;  // fulfilled before Attach/Consume
  int kind = 0;               // 0 value 1 error 2 exception
  int code = 0;
  u32 sleep_ns = 0, jit = 0;
  u64 set_call = 0;
  // owner samples (attached futures)
  bool early_ready = false;
  bool final_ok = true;
};

struct DoneSpec {
  u32 sleep_ns = 0, jit = 0;
  bool extra_add = false;
};

void WgCase(Ctx& ctx, bool timed_focus) {
  ResetTags();
  int nd = static_cast<int>(ctx.rng.In(0, 3));
  int nf = static_cast<int>(ctx.rng.In(0, 3));
  if (nd + nf == 0) {
    nd = 1;
  }
  int nw = static_cast<int>(ctx.rng.In(1, 4));
  u32 horizon = ctx.rng.Coin() ? 300 : 1500;
  std::deque<DoneSpec> dones(static_cast<std::size_t>(nd));
  std::deque<FutSpec> futs(static_cast<std::size_t>(nf));
  std::deque<Waiter> waiters(static_cast<std::size_t>(nw));
  long total = 1;  // guard
  for (auto& d : dones) {
    d.sleep_ns = ctx.rng.Below(3) == 0 ? 0 : ctx.rng.Below(horizon);
    d.jit = ctx.rng.Below(4);
    d.extra_add = ctx.rng.Below(4) == 0;
    total += d.extra_add ? 2 : 1;
  }
  int idx = 0;
  for (auto& f : futs) {
    f.consume = ctx.rng.Coin();
    f.ready_before = ctx.rng.Below(5) == 0;
    f.kind = static_cast<int>(ctx.rng.Below(3));
    f.code = 100 * (++idx) + static_cast<int>(ctx.rng.Below(100));
    f.sleep_ns = ctx.rng.Below(3) == 0 ? 0 : ctx.rng.Below(horizon);
    f.jit = ctx.rng.Below(4);
    total += 1;
  }
  for (auto& w : waiters) {
    w.kind = timed_focus ? static_cast<int>(ctx.rng.In(kWaitFor, kWaitUntil)) : static_cast<int>(ctx.rng.Below(kWaiterKinds));
    w.sleep_ns = ctx.rng.Below(3) == 0 ? 0 : ctx.rng.Below(horizon);
    w.jit = ctx.rng.Below(4);
    w.dur_ns = ctx.rng.Below(4) == 0 ? 0 : ctx.rng.Below(horizon + 100);
    w.late = ctx.rng.Below(6) == 0;
  }
  u32 guard_sleep = ctx.rng.Below(3) == 0 ? 0 : ctx.rng.Below(horizon);
  int attach_form = static_cast<int>(ctx.rng.Below(3));  // 0 one by one, 1 iterator, 2 NeedAdd=false
  int exec_kind = static_cast<int>(ctx.rng.Below(2));
  ctx.Note("WaitGroup{1}: dones=%d futures=%d (form %d) waiters=[", nd, nf, attach_form);
  for (auto& w : waiters) {
    ctx.Note("%s%s@%u ", kWaiterName[w.kind], w.late ? "(late)" : "", w.sleep_ns);
  }
  ctx.Note("] guard released after %uns; total=%ld ", guard_sleep, total);

  std::atomic<long> done_begun{0};
  std::atomic<int> side{0};
  int side_plain = 0;  // written by the root before the guard is released
  yaclib::IntrusivePtr<yaclib::FairThreadPool> pool1 = yaclib::MakeFairThreadPool(1);
  yaclib::IntrusivePtr<yaclib::FairThreadPool> pool2;
  if (exec_kind == 1) {
    pool2 = yaclib::MakeFairThreadPool(1);
  }
  TagExec own{3, *pool1};
  TagExec other{4, exec_kind == 1 ? static_cast<yaclib::IExecutor&>(*pool2) : yaclib::MakeInline()};

  {
    yaclib::WaitGroup<> wg{1};
    std::vector<yaclib::Future<Tracked, MyError>> attached;  // owner keeps these
    std::vector<yaclib::Promise<Tracked, MyError>> promises;
    std::vector<yaclib::Future<> > coros;
    std::atomic<bool> all_released{false};

    // coroutine bodies: named objects that outlive the coroutines
    auto co_inline = [&](Waiter* w) -> yaclib::Future<> {
      co_await wg;
      w->done_seen = done_begun.load(kRlx);
      VF_R(side_plain, "C04,C16");
      w->side_seen = side_plain;
      w->at = Stamp();
      w->released.fetch_add(1, kRlx);
      co_return{};
    };
    auto co_sticky = [&](Waiter* w) -> yaclib::Future<> {
      co_await yaclib::On(own);
      co_await wg.AwaitSticky();
      w->done_seen = done_begun.load(kRlx);
      VF_R(side_plain, "C04,C16");
      w->side_seen = side_plain;
      w->tag = CurTag();
      w->at = Stamp();
      w->released.fetch_add(1, kRlx);
      co_return{};
    };
    auto co_on = [&](Waiter* w) -> yaclib::Future<> {
      co_await wg.AwaitOn(other);
      w->done_seen = done_begun.load(kRlx);
      VF_R(side_plain, "C04,C16");
      w->side_seen = side_plain;
      w->tag = CurTag();
      w->at = Stamp();
      w->released.fetch_add(1, kRlx);
      co_return{};
    };

    // futures: created by the root (owner)
    for (auto& f : futs) {
      auto [fu, pr] = yaclib::MakeContract<Tracked, MyError>();
      if (f.ready_before) {
        done_begun.fetch_add(1, kRlx);
        f.set_call = Stamp();
        std::move(pr).Set(Tracked{f.code});
        f.kind = 0;
        promises.emplace_back();
      } else {
        promises.push_back(std::move(pr));
      }
      attached.push_back(std::move(fu));
    }
    // registration, under the guard count
    if (nf != 0) {
      if (attach_form == 1) {
        // iterator forms need one mode for the whole range
        bool consume = futs[0].consume;
        for (auto& f : futs) {
          f.consume = consume;
        }
        if (consume) {
          wg.Consume(attached.begin(), attached.size());
        } else {
          wg.Attach(attached.begin(), attached.end());
        }
      } else {
        for (std::size_t i = 0; i < futs.size(); ++i) {
          if (attach_form == 2) {
            wg.Add(1);
            if (futs[i].consume) {
              wg.Consume<false>(std::move(attached[i]));
            } else {
              wg.Attach<false>(attached[i]);
            }
          } else if (futs[i].consume) {
            wg.Consume(std::move(attached[i]));
          } else {
            wg.Attach(attached[i]);
          }
        }
      }
      for (std::size_t i = 0; i < futs.size(); ++i) {
        if (!futs[i].consume && !futs[i].ready_before) {
          // nobody can have begun to fulfil it yet (producers start below): it must not look Ready to its owner
          if (attached[i].Ready()) {
            futs[i].early_ready = true;
          }
        }
      }
    }
    wg.Add(static_cast<std::size_t>(nd));

    std::vector<yaclib_std::thread> ts;
    for (auto& d : dones) {
      ts.emplace_back([&wg, &d, &done_begun] {
        if (d.extra_add) {
          wg.Add(1);  // legal: our own count is still outstanding
        }
        SleepNs(d.sleep_ns);
        Jitter(d.jit);
        if (d.extra_add) {
          done_begun.fetch_add(2, kRlx);
          wg.Done(2);
        } else {
          done_begun.fetch_add(1, kRlx);
          wg.Done();
        }
      });
    }
    for (std::size_t i = 0; i < futs.size(); ++i) {
      if (futs[i].ready_before) {
        continue;
      }
      ts.emplace_back([&, i] {
        auto& f = futs[i];
        SleepNs(f.sleep_ns);
        Jitter(f.jit);
        done_begun.fetch_add(1, kRlx);
        f.set_call = Stamp();
        if (f.kind == 0) {
          std::move(promises[i]).Set(Tracked{f.code});
        } else if (f.kind == 1) {
          std::move(promises[i]).Set(MyError{f.code});
        } else {
          std::move(promises[i]).Set(std::make_exception_ptr(MyException{f.code}));
        }
      });
    }
    coros.resize(waiters.size());
    for (std::size_t wi = 0; wi < waiters.size(); ++wi) {
      ts.emplace_back([&, wi] {
        auto& w = waiters[wi];
        if (w.late) {
          while (!all_released.load(kRlx)) {
            Jitter(1);
#if !VF_FIBER
            std::this_thread::yield();
#endif
          }
        } else {
          SleepNs(w.sleep_ns);
          Jitter(w.jit);
        }
        switch (w.kind) {
          case kWait:
            wg.Wait();
            break;
          case kWaitFor: {
            w.deadline = NowNs() + w.dur_ns;
            w.timed_result = wg.WaitFor(std::chrono::nanoseconds{w.dur_ns});
            w.now_after = NowNs();
          } break;
          case kWaitUntil: {
            auto tp = yaclib_std::chrono::steady_clock::now() + std::chrono::nanoseconds{w.dur_ns};
            w.deadline = std::chrono::duration_cast<std::chrono::nanoseconds>(tp.time_since_epoch()).count();
            w.timed_result = wg.WaitUntil(tp);
            w.now_after = NowNs();
          } break;
          case kCoInline:
            coros[wi] = co_inline(&w);
            return;
          case kCoSticky:
            coros[wi] = co_sticky(&w);
            return;
          default:
            coros[wi] = co_on(&w);
            return;
        }
        if (w.timed_result) {
          w.done_seen = done_begun.load(kRlx);
          VF_R(side_plain, "C04,C16");
          w.side_seen = side_plain;
        }
        w.at = Stamp();
        w.released.fetch_add(1, kRlx);
      });
    }
    // release the guard
    SleepNs(guard_sleep);
    VF_W(side_plain, "C04,C16");
    side_plain = 42;
    done_begun.fetch_add(1, kRlx);
    wg.Done();
    // wait until the count is zero without using the object under test for the decision: join the completers first
    // (threads are joined in creation order: dones, producers, then waiters)
    std::size_t completers = dones.size();
    for (auto& f : futs) {
      completers += f.ready_before ? 0 : 1;
    }
    for (std::size_t i = 0; i < completers; ++i) {
      ts[i].join();
    }
    all_released.store(true, kRlx);
    for (std::size_t i = completers; i < ts.size(); ++i) {
      ts[i].join();
    }
    // every coroutine must finish now
    for (std::size_t wi = 0; wi < coros.size(); ++wi) {
      if (coros[wi].Valid()) {
        yaclib::Wait(coros[wi]);
      }
    }
    // a timed waiter that gave up must not keep the group from being destroyed safely: one more round
    ctx.Check(wg.Count() == 0, "count-zero", "C16", "count is %zu after every Done and every future completed",
              wg.Count());
    for (std::size_t i = 0; i < futs.size(); ++i) {
      auto& f = futs[i];
      if (f.consume) {
        continue;
      }
      if (!attached[i].Valid() || !attached[i].Ready()) {
        f.final_ok = false;
        continue;
      }
      auto r = std::move(attached[i]).Get();
      int st = static_cast<int>(r.State());
      int want = f.kind == 0 ? 0 : f.kind == 1 ? 2 : 1;
      if (st != want) {
        f.final_ok = false;
      } else if (st == 0 && !(std::as_const(r).Value().Fresh() && std::as_const(r).Value().v == f.code)) {
        f.final_ok = false;
      } else if (st == 2 && std::as_const(r).Error().code != f.code) {
        f.final_ok = false;
      }
    }
    coros.clear();
  }
  pool1->Stop();
  pool1->Wait();
  if (pool2) {
    pool2->Stop();
    pool2->Wait();
  }
  // ---- oracles
  int timeouts = 0, before_zero = 0;
  for (auto& w : waiters) {
    int rel = w.released.load(kRlx);
    ctx.Check(rel == 1, "released-exactly-once", "C16", "%s waiter released %d times", kWaiterName[w.kind], rel);
    bool timed = w.kind == kWaitFor || w.kind == kWaitUntil;
    if (timed && !w.timed_result) {
      ++timeouts;
      ctx.Check(w.now_after >= w.deadline, "false-before-deadline", "C16",
                "%s returned false at %lld ns, before its deadline %lld ns", kWaiterName[w.kind], w.now_after,
                w.deadline);
      continue;
    }
    if (rel >= 1) {
      ctx.Check(w.done_seen == total, "released-before-zero", "C16",
                "%s%s was released when only %ld of %ld Done/completions had even begun", kWaiterName[w.kind],
                timed ? " (returned true)" : "", w.done_seen, total);
      ctx.Check(w.side_seen == 42, "visibility", "C16,C04", "%s waiter read side=%d, expected 42", kWaiterName[w.kind],
                w.side_seen);
      if (w.kind == kCoSticky) {
        ctx.Check(w.tag == 3, "resumed-on-executor", "C16,C13", "AwaitSticky resumed with executor tag %d, expected 3",
                  w.tag);
      }
      if (w.kind == kCoOn) {
        ctx.Check(w.tag == 4, "resumed-on-executor", "C16,C13", "AwaitOn(e) resumed with executor tag %d, expected 4",
                  w.tag);
      }
    }
    before_zero += w.late ? 0 : 1;
  }
  for (auto& f : futs) {
    ctx.Check(!f.early_ready, "attached-ready-early", "C16",
              "an attached future reported Ready()==true before anyone began to fulfil it");
    ctx.Check(f.final_ok, "attached-result", "C16",
              "an attached future was not valid/Ready with its result after the group completed");
  }
  ctx.SetNontrivial(before_zero >= 1 && (nd + nf) >= 1);
  ctx.Class(timeouts != 0 ? "some-timeout" : "no-timeout");
  ctx.Observe(static_cast<u64>(timeouts));
}

// ------------------------------------------------------------------------------------------------
// WaitGroup with no guard count: several futures attached / consumed in ONE call while their producers are already
// running.  The group's count starts at zero, so the call itself must account for all of them before any of them can
// complete it; the waiter must not be released before every future has completed.
void BulkAttachCase(Ctx& ctx) {
  int n = static_cast<int>(ctx.rng.In(2, 4));
  int form = static_cast<int>(ctx.rng.Below(4));  // 0 Attach(fs...), 1 Attach(begin,end), 2 Consume(fs...), 3 Consume(begin,n)
  struct P {
    int code = 0;
    u32 jit = 0;
    bool before = false;
    u64 set_call = 0, set_ret = 0;
  };
  std::vector<P> ps(static_cast<std::size_t>(n));
  std::vector<yaclib::Future<Tracked, MyError>> fs;
  std::vector<yaclib::Promise<Tracked, MyError>> prs;
  for (int i = 0; i < n; ++i) {
    auto& p = ps[static_cast<std::size_t>(i)];
    p.code = 100 * (i + 1) + static_cast<int>(ctx.rng.Below(100));
    p.jit = ctx.rng.Below(6);
    p.before = ctx.rng.Below(5) == 0;
    auto [f, pr] = yaclib::MakeContract<Tracked, MyError>();
    fs.push_back(std::move(f));
    prs.push_back(std::move(pr));
  }
  u32 rjit = ctx.rng.Below(6);
  int waiter_kind = static_cast<int>(ctx.rng.Below(2));  // 0 root Wait(), 1 extra thread Wait() + root Wait()
  ctx.Note("WaitGroup{0}: %s of %d futures while their producers run ",
           form == 0 ? "Attach(fs...)" : form == 1 ? "Attach(begin,end)" : form == 2 ? "Consume(fs...)" : "Consume(begin,n)", n);
  std::atomic<long> begun{0};
  long seen_root = -1, seen_extra = -1;
  u64 wait_ret = 0;
  {
    yaclib::WaitGroup<> wg;
    std::vector<yaclib_std::thread> ts;
    auto fulfil = [&](int i) {
      auto& p = ps[static_cast<std::size_t>(i)];
      begun.fetch_add(1, kRlx);
      p.set_call = Stamp();
      std::move(prs[static_cast<std::size_t>(i)]).Set(Tracked{p.code});
      p.set_ret = Stamp();
    };
    for (int i = 0; i < n; ++i) {
      if (ps[static_cast<std::size_t>(i)].before) {
        fulfil(i);
      } else {
        ts.emplace_back([&, i] {
          Jitter(ps[static_cast<std::size_t>(i)].jit);
          fulfil(i);
        });
      }
    }
    Jitter(rjit);
    switch (form) {
      case 0:
        if (n == 2) {
          wg.Attach(fs[0], fs[1]);
        } else if (n == 3) {
          wg.Attach(fs[0], fs[1], fs[2]);
        } else {
          wg.Attach(fs[0], fs[1], fs[2], fs[3]);
        }
        break;
      case 1:
        wg.Attach(fs.begin(), fs.end());
        break;
      case 2:
        if (n == 2) {
          wg.Consume(std::move(fs[0]), std::move(fs[1]));
        } else if (n == 3) {
          wg.Consume(std::move(fs[0]), std::move(fs[1]), std::move(fs[2]));
        } else {
          wg.Consume(std::move(fs[0]), std::move(fs[1]), std::move(fs[2]), std::move(fs[3]));
        }
        break;
      default:
        wg.Consume(fs.begin(), fs.size());
        break;
    }
    if (waiter_kind == 1) {
      ts.emplace_back([&] {
        wg.Wait();
        seen_extra = begun.load(kRlx);
      });
    }
    wg.Wait();
    seen_root = begun.load(kRlx);
    wait_ret = Stamp();
    for (auto& t : ts) {
      t.join();
    }
    ctx.Check(wg.Count() == 0, "count-zero", "C16", "count is %zu after every attached future completed", wg.Count());
    if (form <= 1) {
      for (int i = 0; i < n; ++i) {
        auto& f = fs[static_cast<std::size_t>(i)];
        bool ok = f.Valid() && f.Ready();
        if (ok) {
          auto r = std::move(f).Get();
          ok = r.State() == yaclib::ResultState::Value && std::as_const(r).Value().Fresh() &&
               std::as_const(r).Value().v == ps[static_cast<std::size_t>(i)].code;
        }
        ctx.Check(ok, "attached-result", "C16", "attached future %d is not valid/Ready with its result after Wait returned", i);
      }
    }
  }
  bool overlapped = false;
  for (auto& p : ps) {
    overlapped = overlapped || !p.before;
  }
  ctx.SetNontrivial(overlapped);
  ctx.Class(form <= 1 ? "attach" : "consume");
  ctx.Check(seen_root == n, "released-before-zero", "C16",
            "Wait() returned when only %ld of %d attached futures had even begun to complete", seen_root, n);
  if (waiter_kind == 1) {
    ctx.Check(seen_extra == n, "released-before-zero", "C16",
              "a second Wait() returned when only %ld of %d attached futures had even begun to complete", seen_extra, n);
  }
  (void)wait_ret;
}

// ------------------------------------------------------------------------------------------------
// OneShotEvent directly

struct EJob final : yaclib::Job {
  std::atomic<int> calls{0};
  u64 called_at = 0;
  bool added = false;
  u64 add_call = 0, add_ret = 0;
  void Call() noexcept final {
    called_at = Stamp();
    calls.fetch_add(1, kRlx);
  }
};

void EventCase(Ctx& ctx) {
  int na = static_cast<int>(ctx.rng.In(1, 4));
  int nw = static_cast<int>(ctx.rng.In(0, 3));
  bool call_first = ctx.rng.Below(3) == 0;
  u32 set_jit = ctx.rng.Below(10);
  std::deque<EJob> jobs(static_cast<std::size_t>(na));
  std::vector<u32> ajit, wjit;
  std::vector<int> wkind;
  for (int i = 0; i < na; ++i) {
    ajit.push_back(ctx.rng.Below(10));
  }
  for (int i = 0; i < nw; ++i) {
    wjit.push_back(ctx.rng.Below(10));
    wkind.push_back(static_cast<int>(ctx.rng.Below(3)));
  }
  ctx.Note("OneShotEvent: %d TryAdd threads, %d waiters, setter does %sSet after %u yields", na, nw,
           call_first ? "Call then " : "", set_jit);
  yaclib::OneShotEvent ev;
  u64 set_call = 0, call_call = 0, call_ret = 0;
  std::deque<std::atomic<int>> wrel(static_cast<std::size_t>(nw));
  std::vector<u64> wat(static_cast<std::size_t>(nw), 0);
  std::vector<int> wtimeout(static_cast<std::size_t>(nw), 0);
  std::atomic<int> ready_early{0};
  {
    std::vector<yaclib_std::thread> ts;
    for (int i = 0; i < na; ++i) {
      ts.emplace_back([&, i] {
        Jitter(ajit[static_cast<std::size_t>(i)]);
        auto& j = jobs[static_cast<std::size_t>(i)];
        j.add_call = Stamp();
        j.added = ev.TryAdd(j);
        j.add_ret = Stamp();
      });
    }
    for (int i = 0; i < nw; ++i) {
      ts.emplace_back([&, i] {
        Jitter(wjit[static_cast<std::size_t>(i)]);
        auto k = static_cast<std::size_t>(i);
        if (wkind[k] == 0) {
          ev.Wait();
        } else if (wkind[k] == 1) {
          while (!ev.WaitFor(std::chrono::nanoseconds{50})) {
            wtimeout[k]++;
          }
        } else {
          if (ev.Ready() && set_call == 0) {
            ready_early.fetch_add(1, kRlx);
          }
          ev.Wait();
        }
        wat[k] = Stamp();
        wrel[k].fetch_add(1, kRlx);
      });
    }
    ts.emplace_back([&] {
      Jitter(set_jit);
      if (call_first) {
        call_call = Stamp();
        ev.Call();
        call_ret = Stamp();
        Jitter(set_jit / 2);
      }
      set_call = Stamp();
      ev.Set();
    });
    for (auto& t : ts) {
      t.join();
    }
  }
  u64 first_fire = call_first ? call_call : set_call;
  int added = 0;
  for (auto& j : jobs) {
    int c = j.calls.load(kRlx);
    if (j.added) {
      ++added;
      ctx.Check(c == 1, "job-exactly-once", "C16", "a job whose TryAdd returned true was called %d times", c);
      if (c >= 1) {
        ctx.Check(j.called_at > first_fire, "job-before-set", "C16", "a job was called before Set/Call began");
      }
    } else {
      ctx.Check(c == 0, "job-exactly-once", "C16", "a job whose TryAdd returned false was called %d times", c);
      ctx.Check(set_call != 0 && set_call < j.add_ret, "tryadd-false-before-set", "C16",
                "TryAdd returned false (returned t=%llu) although Set had not begun (t=%llu)",
                (unsigned long long)j.add_ret, (unsigned long long)set_call);
    }
  }
  for (int i = 0; i < nw; ++i) {
    auto k = static_cast<std::size_t>(i);
    ctx.Check(wrel[k].load(kRlx) == 1, "released-exactly-once", "C16", "event waiter released %d times",
              wrel[k].load(kRlx));
    // Call() fires every registered job, blocking waiters included, so the earliest legal release is the first of
    // Call/Set
    ctx.Check(wat[k] > first_fire, "released-before-zero", "C16",
              "Wait/WaitFor returned (t=%llu) before Set/Call began (t=%llu)", (unsigned long long)wat[k],
              (unsigned long long)first_fire);
  }
  ctx.Check(ready_early.load(kRlx) == 0, "ready-before-set", "C16", "Ready()==true before Set began");
  ctx.Check(ev.Ready(), "ready-after-set", "C16", "Ready()==false after Set");
  ctx.SetNontrivial(na + nw >= 2);
  ctx.Class(added == na ? "all-added" : added == 0 ? "none-added" : "some-added");
  ev.Reset();
  ctx.Check(!ev.Ready(), "reset", "C16", "Ready() after Reset");
}

}  // namespace

VF_CELL(wg_mixed, "waitgroup/mixed-waiters", "C16,C03,C04,C13", 30) {
  WgCase(ctx, false);
}
VF_CELL(wg_timed, "waitgroup/timed-waiters", "C16,C03", 20) {
  WgCase(ctx, true);
}
VF_CELL(wg_bulk, "waitgroup/bulk-attach-racing", "C16,C03", 14) {
  BulkAttachCase(ctx);
}
VF_CELL(ev_direct, "one-shot-event/direct", "C16,C03,C04", 12) {
  EventCase(ctx);
}

int main(int argc, char** argv) {
  return vf::Main(argc, argv, "wg");
}
