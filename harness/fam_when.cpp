// fam_when — C09 (WhenAll / Join) and C10 (WhenAny); also feeds C03/C04.
//
// n inputs, each fulfilled by its own thread; a setup thread builds the combinator concurrently, so inputs complete
// before, during and after registration.  Every client call is bracketed by logical-clock stamps; "which" and "when"
// are judged with the interval rule of DESIGN.md §3 (overlapping operations are never ordered by the oracle).
#include "vf_exec.hpp"

#include <yaclib/async/contract.hpp>
#include <yaclib/async/join.hpp>
#include <yaclib/async/shared_contract.hpp>
#include <yaclib/async/when_all.hpp>
#include <yaclib/async/when_any.hpp>

#include <deque>
#include <tuple>
#include <variant>
#include <vector>

using namespace vf;
using yaclib::FailPolicy;
using yaclib::Result;

namespace {

inline void Jitter(u32 n) {
#if VF_FIBER
  for (u32 i = 0; i < n; ++i) {
    yaclib_std::this_thread::yield();
  }
#else
  for (volatile u32 i = 0; i < n * 40; ++i) {
  }
#endif
}

enum InKind { kVal = 0, kErr = 1, kExc = 2 };

struct InSpec {
  int kind = 0;
  int code = 0;
  u32 jit = 0;
  bool shared = false;
  u64 set_call = 0, set_ret = 0;
  int side = 0;  // plain, written before Set
};

// second value type for the tuple forms
struct Other {
  Tracked t;
  explicit Other(int x) : t{x} {
  }
  Other() : t{0} {
  }
};

struct Elem {
  int state = -9;
  int code = 0;
  bool fresh = true;
};

// Another consumer of a shared input, registered on the same SharedFuture before / after the combinator is built.  The
// combinator must not disturb it: it runs exactly once, with its own input's result, and releases its functor.
struct CoSub {
  int kind = 0;  // 0 SubscribeInline, 1 ThenInline (returned future dropped), 2 ThenInline (returned future kept)
  bool pre = true;
  int calls = 0;
  Elem got;
  yaclib::Future<void, MyError> kept;
};

template <typename V>
struct Chan {
  yaclib::Future<V, MyError> uf;
  yaclib::Promise<V, MyError> up;
  yaclib::SharedFuture<V, MyError> sf;
  yaclib::SharedPromise<V, MyError> sp;
  bool shared = false;
  std::deque<CoSub> subs;
  yaclib::SharedFuture<V, MyError> sf_keep;  // second handle for the subscribers registered after the combinator

  void Plan(Ctx& ctx) {
    if (!shared || ctx.rng.Coin()) {
      return;
    }
    int npre = static_cast<int>(ctx.rng.Below(3)), npost = static_cast<int>(ctx.rng.Below(2));
    for (int i = 0; i < npre + npost; ++i) {
      subs.emplace_back();
      subs.back().kind = static_cast<int>(ctx.rng.Below(3));
      subs.back().pre = i < npre;
    }
  }

  void Attach(bool pre);

  void Make(bool sh) {
    shared = sh;
    if (sh) {
      auto [f, p] = yaclib::MakeSharedContract<V, MyError>();
      sf = std::move(f);
      sp = std::move(p);
    } else {
      auto [f, p] = yaclib::MakeContract<V, MyError>();
      uf = std::move(f);
      up = std::move(p);
    }
  }

  template <typename P>
  static void SetTo(P&& p, const InSpec& s) {
    if (s.kind == kVal) {
      std::move(p).Set(V{s.code});
    } else if (s.kind == kErr) {
      std::move(p).Set(MyError{s.code});
    } else {
      std::move(p).Set(std::make_exception_ptr(MyException{s.code}));
    }
  }

  void Fulfil(InSpec& s) {
    Jitter(s.jit);
    VF_W(s.side, "C04");
    s.side = s.code;
    s.set_call = Stamp();
    if (shared) {
      SetTo(std::move(sp), s);
    } else {
      SetTo(std::move(up), s);
    }
    s.set_ret = Stamp();
  }
};

inline int ExcCode(const std::exception_ptr& e) {
  try {
    std::rethrow_exception(e);
  } catch (const MyException& x) {
    return x.code;
  } catch (...) {
    return -777;
  }
}

inline Elem DigestElem(const Tracked& t) {
  return {0, t.v, t.Fresh()};
}
inline Elem DigestElem(const Other& o) {
  return {0, o.t.v, o.t.Fresh()};
}
inline Elem DigestElem(const yaclib::Unit&) {
  return {0, 0, true};
}
template <typename V>
Elem DigestElem(const Result<V, MyError>& r) {
  Elem e;
  e.state = static_cast<int>(r.State());
  if (e.state == 0) {
    if constexpr (!std::is_void_v<V>) {
      Elem v = DigestElem(r.Value());
      e.code = v.code;
      e.fresh = v.fresh;
    }
  } else if (e.state == 1) {
    e.code = ExcCode(r.Exception());
  } else if (e.state == 2) {
    e.code = r.Error().code;
  }
  return e;
}
template <typename... Ts>
Elem DigestElem(const std::variant<Ts...>& v) {
  return std::visit(
    [](const auto& x) {
      return DigestElem(x);
    },
    v);
}

template <typename V>
void Chan<V>::Attach(bool pre) {
  if (!shared) {
    return;
  }
  if (pre) {
    for (auto& c : subs) {
      if (!c.pre) {
        sf_keep = sf;
        break;
      }
    }
  }
  const auto& h = pre ? sf : sf_keep;
  for (auto& c : subs) {
    if (c.pre != pre) {
      continue;
    }
    auto cb = [pc = &c, guard = Tracked{31}](const Result<V, MyError>& r) {
      pc->got = DigestElem(r);
      pc->got.fresh = pc->got.fresh && guard.Fresh();
      ++pc->calls;
    };
    if (c.kind == 0) {
      h.SubscribeInline(std::move(cb));
    } else if (c.kind == 1) {
      auto dropped = h.ThenInline(std::move(cb));
    } else {
      c.kept = h.ThenInline(std::move(cb));
    }
  }
  if (!pre) {
    sf_keep = {};
  }
}

struct OutObs {
  std::atomic<int> calls{0};
  Elem top;                 // state/code of the output Result itself (code: error/exception code, or value code for Any)
  std::vector<Elem> elems;  // per input (WhenAll value)
  u64 at = 0;
  int side_mode = 0;  // 0: read nothing, 1: read every input's side word (all inputs complete), 2: the deciding input's
  int side_sum = 0;   // plain reads, ordered after the producers' writes only through the library
};

template <typename T>
void DigestValue(OutObs& o, const T& v) {
  if constexpr (std::is_same_v<T, yaclib::Unit>) {
  } else if constexpr (std::is_same_v<T, Tracked> || std::is_same_v<T, Other>) {
    Elem e = DigestElem(v);
    o.top.code = e.code;
    o.top.fresh = e.fresh;
  } else {
    // vector / tuple / variant
    if constexpr (requires { v.size(); v.begin(); }) {
      for (const auto& x : v) {
        o.elems.push_back(DigestElem(x));
      }
    } else if constexpr (requires { std::tuple_size<T>::value; }) {
      std::apply(
        [&](const auto&... xs) {
          (o.elems.push_back(DigestElem(xs)), ...);
        },
        v);
    } else {
      Elem e = DigestElem(v);
      o.top.code = e.code;
      o.top.fresh = e.fresh;
    }
  }
}

template <typename OutV>
void DigestOut(OutObs& o, const Result<OutV, MyError>& r, const std::vector<InSpec>& in) {
  o.at = Stamp();
  o.top.state = static_cast<int>(r.State());
  if (o.top.state == 0) {
    if constexpr (!std::is_void_v<OutV>) {
      DigestValue(o, r.Value());
    }
  } else if (o.top.state == 1) {
    o.top.code = ExcCode(r.Exception());
  } else if (o.top.state == 2) {
    o.top.code = r.Error().code;
  }
  for (const auto& s : in) {
    if (o.side_mode == 1 || (o.side_mode == 2 && s.code == o.top.code)) {
      VF_R(s.side, "C04");
      o.side_sum += s.side;
    }
  }
  o.calls.fetch_add(1, kRlx);
}

struct Timing {
  u64 when_call = 0, when_ret = 0;  // when_ret is taken after sampling Ready() on the output
  u64 attach_ret = 0;               // after the digest continuation has been attached to the output
  bool ready_at_ret = false;
  bool valid = true;
  bool drop_output = false;  // the output future is destroyed right away instead of being consumed
};

// visibility interval of input i (DESIGN §3 C09)
inline u64 VisBegin(const InSpec& s, const Timing& t) {
  return s.set_call > t.when_call ? s.set_call : t.when_call;
}
inline u64 VisEnd(const InSpec& s, const Timing& t) {
  return s.set_ret > t.when_ret ? s.set_ret : t.when_ret;
}

std::vector<InSpec> MakeInputs(Ctx& ctx, int n, int shared_mode, int fail_bias) {
  std::vector<InSpec> in(static_cast<std::size_t>(n));
  for (int i = 0; i < n; ++i) {
    auto& s = in[static_cast<std::size_t>(i)];
    u32 r = ctx.rng.Below(100);
    if (static_cast<int>(r) < fail_bias) {
      s.kind = ctx.rng.Coin() ? kErr : kExc;
    } else {
      s.kind = kVal;
    }
    s.code = 1000 * (i + 1) + static_cast<int>(ctx.rng.Below(1000));
    s.jit = ctx.rng.Below(6);
    s.shared = shared_mode == 1 || (shared_mode == 2 && (i % 2 == 1));
  }
  return in;
}

const char* PolicyName(FailPolicy p) {
  return p == FailPolicy::None ? "None" : p == FailPolicy::FirstFail ? "FirstFail" : "LastFail";
}

// The scenario skeleton: start producers, run `build` on a setup thread (returns the output future), attach the
// digest continuation, join everything.
template <typename V0, typename Build>
void RunScenario(Ctx& ctx, std::vector<InSpec>& in, std::vector<Chan<V0>>& ch, Timing& tm, OutObs& obs, u32 setup_jit,
                 Build&& build) {
  std::vector<yaclib_std::thread> ts;
  ts.reserve(in.size() + 1);
  for (std::size_t i = 0; i < in.size(); ++i) {
    ts.emplace_back([&, i] {
      ch[i].Fulfil(in[i]);
    });
  }
  ts.emplace_back([&] {
    Jitter(setup_jit);
    for (auto& c : ch) {
      c.Attach(true);
    }
    tm.when_call = Stamp();
    auto out = build();
    for (auto& c : ch) {
      c.Attach(false);
    }
    if (!out.Valid()) {
      tm.valid = false;
      tm.when_ret = Stamp();
      return;
    }
    tm.ready_at_ret = out.Ready();
    tm.when_ret = Stamp();
    if (tm.drop_output) {
      auto dead = std::move(out);  // nobody will look at the result; inputs must still be consumed and released
      tm.attach_ret = Stamp();
      return;
    }
    using OutV = typename std::remove_reference_t<decltype(out)>::Core::Value;
    std::move(out).DetachInline([&obs, &in](Result<OutV, MyError>&& r) {
      DigestOut(obs, r, in);
    });
    tm.attach_ret = Stamp();
  });
  for (auto& t : ts) {
    t.join();
  }
  bool overlapped = false;
  for (auto& s : in) {
    if (s.set_call < tm.when_ret && tm.when_call < s.set_ret) {
      overlapped = true;
    }
  }
  ctx.SetNontrivial(overlapped || in.size() >= 2);
  ctx.Class(overlapped ? "set-overlaps-registration" : "no-overlap");
  // the other consumers of the shared inputs (C06: every consumer registered on a shared state observes its result
  // exactly once; C03: their functors are released exactly once)
  int nsubs = 0;
  for (std::size_t i = 0; i < in.size(); ++i) {
    int k = 0;
    for (auto& c : ch[i].subs) {
      ++nsubs;
      int want_state = in[i].kind == kVal ? 0 : in[i].kind == kExc ? 1 : 2;
      ctx.Check(c.calls == 1, "co-subscriber-exactly-once", "C06,C03",
                "consumer %d (%s, registered %s the combinator) of shared input %zu ran %d times", k,
                c.kind == 0 ? "SubscribeInline" : "ThenInline", c.pre ? "before" : "after", i, c.calls);
      if (c.calls == 1) {
        ctx.Check(c.got.state == want_state && c.got.code == in[i].code && c.got.fresh, "co-subscriber-value", "C06",
                  "consumer %d of shared input %zu saw state=%d code=%d fresh=%d, the input was state=%d code=%d", k, i,
                  c.got.state, c.got.code, (int)c.got.fresh, want_state, in[i].code);
      }
      if (c.kind == 2) {
        ctx.Check(c.kept.Valid() && c.kept.Ready(), "co-subscriber-future-ready", "C06",
                  "the future returned by ThenInline on shared input %zu is not ready after the input was set", i);
        c.kept = {};
      }
      ++k;
    }
  }
  if (nsubs != 0) {
    ctx.Class("shared-input-has-other-consumers");
  }
}

void CheckCommon(Ctx& ctx, const OutObs& obs, const std::vector<InSpec>& in, const char* props) {
  int calls = obs.calls.load(kRlx);
  ctx.Check(calls == 1, "output-exactly-once", props, "output continuation ran %d times", calls);
  int want = 0;
  for (auto& s : in) {
    want += s.side;
  }
  (void)want;
}

// The output continuation must have run no later than the moment both the deciding Set call (`deadline` = its return
// stamp) and the attachment of the continuation had returned: it runs either inside the deciding Set (producer side)
// or inline inside the attach call (output already ready).  Anything later means the output was decided late.
void CheckUpper(Ctx& ctx, const OutObs& obs, const Timing& tm, u64 deadline, const char* props, const char* what) {
  u64 bound = deadline > tm.attach_ret ? deadline : tm.attach_ret;
  ctx.Check(obs.at < bound, "completes-late", props,
            "output continuation ran at t=%llu, after %s had returned (t=%llu) and after it was attached (t=%llu)",
            (unsigned long long)obs.at, what, (unsigned long long)deadline, (unsigned long long)tm.attach_ret);
}

// ------------------------------------------------------------------------------------------------
// WhenAll / Join

enum AllForm { aDynU, aDynS, aStaU, aStaS, aStaMix, aTuple, aJoinDyn, aJoinSta, aJoinVoid };
const char* const kAllFormName[] = {"dynamic-unique", "dynamic-shared", "static-unique", "static-shared",
                                    "static-mixed",   "tuple",          "join-dynamic",  "join-static", "join-void"};

template <FailPolicy P>
void AllCase(Ctx& ctx, int form) {
  int n = static_cast<int>(ctx.rng.In(1, 4));
  if (form == aTuple) {
    n = static_cast<int>(ctx.rng.In(2, 3));
  }
  if (form == aStaMix) {
    n = static_cast<int>(ctx.rng.In(2, 4));
  }
  int shared_mode = (form == aDynS || form == aStaS) ? 1 : (form == aStaMix ? 2 : 0);
  static const int biases[] = {0, 25, 50, 100};
  int bias = biases[ctx.rng.Below(4)];
  auto in = MakeInputs(ctx, n, shared_mode, bias);
  u32 setup_jit = ctx.rng.Below(6);
  std::vector<Chan<Tracked>> ch(static_cast<std::size_t>(n));
  std::vector<Chan<Other>> ch2(static_cast<std::size_t>(n));  // tuple form: odd indices use a second value type
  for (int i = 0; i < n; ++i) {
    ch[static_cast<std::size_t>(i)].Make(in[static_cast<std::size_t>(i)].shared);
    ch[static_cast<std::size_t>(i)].Plan(ctx);
  }
  Timing tm;
  tm.drop_output = ctx.rng.Below(6) == 0;
  OutObs obs;
  int nfail = 0;
  for (auto& s : in) {
    nfail += s.kind != kVal;
  }
  ctx.Note("%sWhenAll<%s> form=%s n=%d fails=%d setup-yields=%u inputs=[", tm.drop_output ? "(output dropped) " : "", PolicyName(P), kAllFormName[form], n, nfail, setup_jit);
  for (auto& s : in) {
    ctx.Note("%s%s:%d/y%u ", s.shared ? "S" : "U", s.kind == kVal ? "val" : s.kind == kErr ? "err" : "exc", s.code,
             s.jit);
  }
  ctx.Note("] ");
  ctx.Class(nfail == 0 ? "all-succeed" : nfail == n ? "all-fail" : "some-fail");
  obs.side_mode = (P == FailPolicy::None || nfail == 0) ? 1 : 2;

  auto U = [&](int i) -> yaclib::Future<Tracked, MyError>&& {
    return std::move(ch[static_cast<std::size_t>(i)].uf);
  };
  auto S = [&](int i) -> yaclib::SharedFuture<Tracked, MyError>&& {
    return std::move(ch[static_cast<std::size_t>(i)].sf);
  };

  switch (form) {
    case aDynU:
      RunScenario(ctx, in, ch, tm, obs, setup_jit, [&] {
        std::vector<yaclib::Future<Tracked, MyError>> v;
        for (auto& c : ch) {
          v.push_back(std::move(c.uf));
        }
        return yaclib::WhenAll<P>(v.begin(), v.size());
      });
      break;
    case aDynS:
      RunScenario(ctx, in, ch, tm, obs, setup_jit, [&] {
        std::vector<yaclib::SharedFuture<Tracked, MyError>> v;
        for (auto& c : ch) {
          v.push_back(std::move(c.sf));
        }
        return yaclib::WhenAll<P>(v.begin(), v.end());
      });
      break;
    case aStaU:
      RunScenario(ctx, in, ch, tm, obs, setup_jit, [&] {
        switch (n) {
          case 1:
            return yaclib::WhenAll<P>(U(0));
          case 2:
            return yaclib::WhenAll<P>(U(0), U(1));
          case 3:
            return yaclib::WhenAll<P>(U(0), U(1), U(2));
          default:
            return yaclib::WhenAll<P>(U(0), U(1), U(2), U(3));
        }
      });
      break;
    case aStaS:
      RunScenario(ctx, in, ch, tm, obs, setup_jit, [&] {
        switch (n) {
          case 1:
            return yaclib::WhenAll<P>(S(0));
          case 2:
            return yaclib::WhenAll<P>(S(0), S(1));
          case 3:
            return yaclib::WhenAll<P>(S(0), S(1), S(2));
          default:
            return yaclib::WhenAll<P>(S(0), S(1), S(2), S(3));
        }
      });
      break;
    case aStaMix:
      RunScenario(ctx, in, ch, tm, obs, setup_jit, [&] {
        switch (n) {
          case 2:
            return yaclib::WhenAll<P>(U(0), S(1));
          case 3:
            return yaclib::WhenAll<P>(U(0), S(1), U(2));
          default:
            return yaclib::WhenAll<P>(U(0), S(1), U(2), S(3));
        }
      });
      break;
    default:
      break;
  }

  if (!tm.valid) {
    ctx.Fail("unexpected-invalid", "C09", "WhenAll over %d inputs returned an invalid future", n);
    return;
  }
  if (tm.drop_output) {
    ctx.Class("output-dropped");
    ctx.Check(obs.calls.load(kRlx) == 0, "output-exactly-once", "C09", "a continuation ran although the output was dropped");
    return;  // release of every input is judged by the tracked-object and ASan oracles
  }
  CheckCommon(ctx, obs, in, "C09");
  if (obs.calls.load(kRlx) != 1) {
    return;
  }
  bool expect_value = (P == FailPolicy::None) || nfail == 0;
  u64 max_set_ret = 0, max_set_call = 0;
  for (auto& s : in) {
    max_set_ret = s.set_ret > max_set_ret ? s.set_ret : max_set_ret;
    max_set_call = s.set_call > max_set_call ? s.set_call : max_set_call;
  }
  u64 ready_stamp = tm.ready_at_ret ? tm.when_ret : obs.at;
  if (expect_value) {
    ctx.Check(obs.top.state == 0, "all-value", "C09", "expected a value output, got state %d code %d", obs.top.state,
              obs.top.code);
    if (obs.top.state == 0) {
      ctx.Check(static_cast<int>(obs.elems.size()) == n, "all-size", "C09", "output has %zu elements for %d inputs",
                obs.elems.size(), n);
      for (int i = 0; i < n && i < static_cast<int>(obs.elems.size()); ++i) {
        auto& e = obs.elems[static_cast<std::size_t>(i)];
        auto& s = in[static_cast<std::size_t>(i)];
        int want_state = s.kind == kVal ? 0 : s.kind == kExc ? 1 : 2;
        ctx.Check(e.state == want_state && e.code == s.code, "input-order", "C09",
                  "element %d is state=%d code=%d, input %d was state=%d code=%d", i, e.state, e.code, i, want_state,
                  s.code);
        ctx.Check(e.fresh, "payload-intact", "C09", "element %d is torn or moved-from", i);
      }
    }
    ctx.Check(ready_stamp > max_set_call, "completes-early", "C09",
              "output ready at t=%llu before the last input's Set began (t=%llu)", (unsigned long long)ready_stamp,
              (unsigned long long)max_set_call);
    CheckUpper(ctx, obs, tm, max_set_ret, "C09", "the last input's Set");
    int want_side = 0;
    for (auto& s : in) {
      want_side += s.code;
    }
    ctx.Check(obs.side_sum == want_side, "visibility", "C09,C04", "output continuation read side sum %d, expected %d",
              obs.side_sum, want_side);
  } else {
    ctx.Check(obs.side_sum == obs.top.code, "visibility", "C09,C04",
              "output continuation read side=%d of the failing input, expected %d", obs.side_sum, obs.top.code);
    ctx.Check(obs.top.state == 1 || obs.top.state == 2, "firstfail-error", "C09",
              "an input failed under FirstFail but the output state is %d", obs.top.state);
    const InSpec* d = nullptr;
    for (auto& s : in) {
      int st = s.kind == kExc ? 1 : 2;
      if (s.kind != kVal && s.code == obs.top.code && st == obs.top.state) {
        d = &s;
      }
    }
    ctx.Check(d != nullptr, "firstfail-error", "C09", "output failure state=%d code=%d matches no failing input",
              obs.top.state, obs.top.code);
    if (d != nullptr) {
      for (auto& g : in) {
        if (&g != d && g.kind != kVal) {
          ctx.Check(!(VisEnd(g, tm) < VisBegin(*d, tm)), "firstfail-which", "C09",
                    "delivered the failure of input code=%d although input code=%d had failed strictly earlier "
                    "([%llu,%llu] before [%llu,%llu])",
                    d->code, g.code, (unsigned long long)VisBegin(g, tm), (unsigned long long)VisEnd(g, tm),
                    (unsigned long long)VisBegin(*d, tm), (unsigned long long)VisEnd(*d, tm));
        }
      }
      ctx.Check(ready_stamp > d->set_call, "completes-early", "C09", "failure delivered before its input's Set began");
      CheckUpper(ctx, obs, tm, d->set_ret, "C09", "the failing input's Set");
    }
  }
}

// tuple form: (Tracked, Other[, Tracked])
template <FailPolicy P>
void AllTupleCase(Ctx& ctx) {
  int n = static_cast<int>(ctx.rng.In(2, 3));
  static const int biases[] = {0, 25, 50, 100};
  int bias = biases[ctx.rng.Below(4)];
  auto in = MakeInputs(ctx, n, 0, bias);
  bool mid_shared = ctx.rng.Coin();
  in[1].shared = mid_shared;
  u32 setup_jit = ctx.rng.Below(6);
  std::vector<Chan<Tracked>> ch(static_cast<std::size_t>(n));
  Chan<Other> mid;
  ch[0].Make(false);
  mid.Make(mid_shared);
  if (n == 3) {
    ch[2].Make(false);
  }
  Timing tm;
  OutObs obs;
  int nfail = 0;
  for (auto& s : in) {
    nfail += s.kind != kVal;
  }
  ctx.Note("WhenAll<%s> tuple n=%d fails=%d mid=%s ", PolicyName(P), n, nfail, mid_shared ? "shared" : "unique");
  ctx.Class(nfail == 0 ? "all-succeed" : nfail == n ? "all-fail" : nfail >= 2 ? "several-fail" : "one-fail");
  {
    std::vector<yaclib_std::thread> ts;
    ts.emplace_back([&] {
      ch[0].Fulfil(in[0]);
    });
    ts.emplace_back([&] {
      mid.Fulfil(in[1]);
    });
    if (n == 3) {
      ts.emplace_back([&] {
        ch[2].Fulfil(in[2]);
      });
    }
    ts.emplace_back([&] {
      Jitter(setup_jit);
      tm.when_call = Stamp();
      auto attach = [&](auto out) {
        tm.ready_at_ret = out.Ready();
        tm.when_ret = Stamp();
        using OutV = typename std::remove_reference_t<decltype(out)>::Core::Value;
        std::move(out).DetachInline([&obs, &in](Result<OutV, MyError>&& r) {
          DigestOut(obs, r, in);
        });
        tm.attach_ret = Stamp();
      };
      if (n == 2) {
        if (mid_shared) {
          attach(yaclib::WhenAll<P>(std::move(ch[0].uf), std::move(mid.sf)));
        } else {
          attach(yaclib::WhenAll<P>(std::move(ch[0].uf), std::move(mid.uf)));
        }
      } else {
        if (mid_shared) {
          attach(yaclib::WhenAll<P>(std::move(ch[0].uf), std::move(mid.sf), std::move(ch[2].uf)));
        } else {
          attach(yaclib::WhenAll<P>(std::move(ch[0].uf), std::move(mid.uf), std::move(ch[2].uf)));
        }
      }
    });
    for (auto& t : ts) {
      t.join();
    }
  }
  ctx.SetNontrivial(true);
  CheckCommon(ctx, obs, in, "C09");
  if (obs.calls.load(kRlx) != 1) {
    return;
  }
  bool expect_value = (P == FailPolicy::None) || nfail == 0;
  u64 ready_stamp = tm.ready_at_ret ? tm.when_ret : obs.at;
  u64 max_set_ret = 0, max_set_call = 0;
  for (auto& s : in) {
    max_set_ret = s.set_ret > max_set_ret ? s.set_ret : max_set_ret;
    max_set_call = s.set_call > max_set_call ? s.set_call : max_set_call;
  }
  if (expect_value) {
    ctx.Check(obs.top.state == 0 && static_cast<int>(obs.elems.size()) == n, "all-value", "C09",
              "expected a %d-tuple value, got state %d with %zu elements", n, obs.top.state, obs.elems.size());
    for (int i = 0; i < n && i < static_cast<int>(obs.elems.size()); ++i) {
      auto& e = obs.elems[static_cast<std::size_t>(i)];
      auto& s = in[static_cast<std::size_t>(i)];
      int want_state = s.kind == kVal ? 0 : s.kind == kExc ? 1 : 2;
      ctx.Check(e.state == want_state && e.code == s.code && e.fresh, "input-order", "C09",
                "tuple element %d is state=%d code=%d fresh=%d, input was state=%d code=%d", i, e.state, e.code,
                (int)e.fresh, want_state, s.code);
    }
    ctx.Check(ready_stamp > max_set_call, "completes-early", "C09", "tuple output ready before the last Set began");
    CheckUpper(ctx, obs, tm, max_set_ret, "C09", "the last input's Set");
  } else {
    const InSpec* d = nullptr;
    for (auto& s : in) {
      int st = s.kind == kExc ? 1 : 2;
      if (s.kind != kVal && s.code == obs.top.code && st == obs.top.state) {
        d = &s;
      }
    }
    ctx.Check(d != nullptr, "firstfail-error", "C09", "tuple output state=%d code=%d matches no failing input",
              obs.top.state, obs.top.code);
    if (d != nullptr) {
      for (auto& g : in) {
        if (&g != d && g.kind != kVal) {
          ctx.Check(!(VisEnd(g, tm) < VisBegin(*d, tm)), "firstfail-which", "C09",
                    "tuple: delivered failure %d although %d failed strictly earlier", d->code, g.code);
        }
      }
      CheckUpper(ctx, obs, tm, d->set_ret, "C09", "the failing input's Set");
    }
  }
}

// Join: values ignored
template <FailPolicy P>
void JoinCase(Ctx& ctx, int form) {
  int n = static_cast<int>(ctx.rng.In(1, 4));
  int shared_mode = form == 1 ? 2 : form == 2 ? 1 : 0;
  if (form == 1 && n < 2) {
    n = 2;
  }
  static const int biases[] = {0, 30, 100};
  auto in = MakeInputs(ctx, n, shared_mode, biases[ctx.rng.Below(3)]);
  u32 setup_jit = ctx.rng.Below(6);
  std::vector<Chan<Tracked>> ch(static_cast<std::size_t>(n));
  for (int i = 0; i < n; ++i) {
    ch[static_cast<std::size_t>(i)].Make(in[static_cast<std::size_t>(i)].shared);
    ch[static_cast<std::size_t>(i)].Plan(ctx);
  }
  Timing tm;
  OutObs obs;
  int nfail = 0;
  for (auto& s : in) {
    nfail += s.kind != kVal;
  }
  ctx.Note("Join<%s> form=%s n=%d fails=%d ", PolicyName(P), form == 0 ? "dynamic" : form == 2 ? "dynamic-shared" : "static-mixed", n, nfail);
  ctx.Class(nfail == 0 ? "all-succeed" : "some-fail");
  auto U = [&](int i) -> yaclib::Future<Tracked, MyError>&& {
    return std::move(ch[static_cast<std::size_t>(i)].uf);
  };
  auto S = [&](int i) -> yaclib::SharedFuture<Tracked, MyError>&& {
    return std::move(ch[static_cast<std::size_t>(i)].sf);
  };
  if (form == 0) {
    RunScenario(ctx, in, ch, tm, obs, setup_jit, [&] {
      std::vector<yaclib::Future<Tracked, MyError>> v;
      for (auto& c : ch) {
        v.push_back(std::move(c.uf));
      }
      return yaclib::Join<P>(v.begin(), v.size());
    });
  } else if (form == 2) {
    RunScenario(ctx, in, ch, tm, obs, setup_jit, [&] {
      std::vector<yaclib::SharedFuture<Tracked, MyError>> v;
      for (auto& c : ch) {
        v.push_back(std::move(c.sf));
      }
      return yaclib::Join<P>(v.begin(), v.end());
    });
  } else {
    RunScenario(ctx, in, ch, tm, obs, setup_jit, [&] {
      switch (n) {
        case 2:
          return yaclib::Join<P>(U(0), S(1));
        case 3:
          return yaclib::Join<P>(U(0), S(1), U(2));
        default:
          return yaclib::Join<P>(U(0), S(1), U(2), S(3));
      }
    });
  }
  CheckCommon(ctx, obs, in, "C09");
  if (obs.calls.load(kRlx) != 1) {
    return;
  }
  u64 ready_stamp = tm.ready_at_ret ? tm.when_ret : obs.at;
  u64 max_set_ret = 0, max_set_call = 0;
  for (auto& s : in) {
    max_set_ret = s.set_ret > max_set_ret ? s.set_ret : max_set_ret;
    max_set_call = s.set_call > max_set_call ? s.set_call : max_set_call;
  }
  if (P == FailPolicy::None || nfail == 0) {
    ctx.Check(obs.top.state == 0, "join-value", "C09", "Join output state %d, expected value", obs.top.state);
    ctx.Check(ready_stamp > max_set_call, "completes-early", "C09", "Join ready before the last input's Set began");
    CheckUpper(ctx, obs, tm, max_set_ret, "C09", "the last input's Set");
  } else {
    const InSpec* d = nullptr;
    for (auto& s : in) {
      int st = s.kind == kExc ? 1 : 2;
      if (s.kind != kVal && s.code == obs.top.code && st == obs.top.state) {
        d = &s;
      }
    }
    ctx.Check(d != nullptr, "firstfail-error", "C09", "Join output state=%d code=%d matches no failing input",
              obs.top.state, obs.top.code);
    if (d != nullptr) {
      for (auto& g : in) {
        if (&g != d && g.kind != kVal) {
          ctx.Check(!(VisEnd(g, tm) < VisBegin(*d, tm)), "firstfail-which", "C09",
                    "Join: delivered failure %d although %d failed strictly earlier", d->code, g.code);
        }
      }
      CheckUpper(ctx, obs, tm, d->set_ret, "C09", "the failing input's Set");
    }
  }
}

void EmptyCase(Ctx& ctx) {
  std::vector<yaclib::Future<Tracked, MyError>> v;
  std::vector<yaclib::SharedFuture<Tracked, MyError>> sv;
  ctx.SetNontrivial(false);
  ctx.Check(!yaclib::WhenAll(v.begin(), v.end()).Valid(), "empty-invalid", "C09", "WhenAll of nothing is Valid()");
  ctx.Check(!yaclib::WhenAll<FailPolicy::None>(v.begin(), std::size_t{0}).Valid(), "empty-invalid", "C09",
            "WhenAll<None> of nothing is Valid()");
  ctx.Check(!yaclib::WhenAll(sv.begin(), sv.end()).Valid(), "empty-invalid", "C09", "WhenAll(shared) of nothing is Valid()");
  ctx.Check(!yaclib::Join(v.begin(), v.end()).Valid(), "empty-invalid", "C09", "Join of nothing is Valid()");
  ctx.Check(!yaclib::WhenAny(v.begin(), v.end()).Valid(), "empty-invalid", "C10", "WhenAny of nothing is Valid()");
  ctx.Check(!yaclib::WhenAny<FailPolicy::None>(sv.begin(), sv.end()).Valid(), "empty-invalid", "C10",
            "WhenAny<None>(shared) of nothing is Valid()");
}

// ------------------------------------------------------------------------------------------------
// WhenAny

enum AnyForm { yDynU, yDynS, yStaU, yStaS, yStaMix };
const char* const kAnyFormName[] = {"dynamic-unique", "dynamic-shared", "static-unique", "static-shared", "static-mixed"};

template <FailPolicy P>
void AnyCase(Ctx& ctx, int form) {
  int n = static_cast<int>(ctx.rng.In(1, 4));
  if (form == yStaMix && n < 2) {
    n = 2;
  }
  int shared_mode = (form == yDynS || form == yStaS) ? 1 : (form == yStaMix ? 2 : 0);
  static const int biases[] = {0, 40, 70, 100, 100};
  auto in = MakeInputs(ctx, n, shared_mode, biases[ctx.rng.Below(5)]);
  u32 setup_jit = ctx.rng.Below(6);
  std::vector<Chan<Tracked>> ch(static_cast<std::size_t>(n));
  for (int i = 0; i < n; ++i) {
    ch[static_cast<std::size_t>(i)].Make(in[static_cast<std::size_t>(i)].shared);
    ch[static_cast<std::size_t>(i)].Plan(ctx);
  }
  Timing tm;
  tm.drop_output = ctx.rng.Below(6) == 0;
  OutObs obs;
  int nfail = 0;
  for (auto& s : in) {
    nfail += s.kind != kVal;
  }
  ctx.Note("WhenAny<%s> form=%s n=%d fails=%d setup-yields=%u inputs=[", PolicyName(P), kAnyFormName[form], n, nfail,
           setup_jit);
  for (auto& s : in) {
    ctx.Note("%s%s:%d/y%u ", s.shared ? "S" : "U", s.kind == kVal ? "val" : s.kind == kErr ? "err" : "exc", s.code,
             s.jit);
  }
  ctx.Note("] ");
  ctx.Class(nfail == 0 ? "all-succeed" : nfail == n ? "all-fail" : "some-fail");
  obs.side_mode = 2;
  auto U = [&](int i) -> yaclib::Future<Tracked, MyError>&& {
    return std::move(ch[static_cast<std::size_t>(i)].uf);
  };
  auto S = [&](int i) -> yaclib::SharedFuture<Tracked, MyError>&& {
    return std::move(ch[static_cast<std::size_t>(i)].sf);
  };
  switch (form) {
    case yDynU:
      RunScenario(ctx, in, ch, tm, obs, setup_jit, [&] {
        std::vector<yaclib::Future<Tracked, MyError>> v;
        for (auto& c : ch) {
          v.push_back(std::move(c.uf));
        }
        return yaclib::WhenAny<P>(v.begin(), v.size());
      });
      break;
    case yDynS:
      RunScenario(ctx, in, ch, tm, obs, setup_jit, [&] {
        std::vector<yaclib::SharedFuture<Tracked, MyError>> v;
        for (auto& c : ch) {
          v.push_back(std::move(c.sf));
        }
        return yaclib::WhenAny<P>(v.begin(), v.end());
      });
      break;
    case yStaU:
      RunScenario(ctx, in, ch, tm, obs, setup_jit, [&] {
        switch (n) {
          case 1:
            return yaclib::WhenAny<P>(U(0));
          case 2:
            return yaclib::WhenAny<P>(U(0), U(1));
          case 3:
            return yaclib::WhenAny<P>(U(0), U(1), U(2));
          default:
            return yaclib::WhenAny<P>(U(0), U(1), U(2), U(3));
        }
      });
      break;
    case yStaS:
      RunScenario(ctx, in, ch, tm, obs, setup_jit, [&] {
        switch (n) {
          case 1:
            return yaclib::WhenAny<P>(S(0));
          case 2:
            return yaclib::WhenAny<P>(S(0), S(1));
          case 3:
            return yaclib::WhenAny<P>(S(0), S(1), S(2));
          default:
            return yaclib::WhenAny<P>(S(0), S(1), S(2), S(3));
        }
      });
      break;
    default:
      RunScenario(ctx, in, ch, tm, obs, setup_jit, [&] {
        switch (n) {
          case 2:
            return yaclib::WhenAny<P>(U(0), S(1));
          case 3:
            return yaclib::WhenAny<P>(U(0), S(1), U(2));
          default:
            return yaclib::WhenAny<P>(U(0), S(1), U(2), S(3));
        }
      });
      break;
  }
  if (!tm.valid) {
    ctx.Fail("unexpected-invalid", "C10", "WhenAny over %d inputs returned an invalid future", n);
    return;
  }
  if (tm.drop_output) {
    ctx.Class("output-dropped");
    ctx.Check(obs.calls.load(kRlx) == 0, "output-exactly-once", "C10", "a continuation ran although the output was dropped");
    return;
  }
  CheckCommon(ctx, obs, in, "C10");
  if (obs.calls.load(kRlx) != 1) {
    return;
  }
  // identify the input the output came from
  const InSpec* d = nullptr;
  for (auto& s : in) {
    int st = s.kind == kVal ? 0 : s.kind == kExc ? 1 : 2;
    if (s.code == obs.top.code && st == obs.top.state) {
      d = &s;
    }
  }
  ctx.Check(d != nullptr, "any-from-input", "C10", "output state=%d code=%d equals no input's outcome", obs.top.state,
            obs.top.code);
  if (d == nullptr) {
    return;
  }
  ctx.Check(obs.top.fresh, "payload-intact", "C10", "WhenAny delivered a torn or moved-from value");
  ctx.Check(obs.side_sum == d->code, "visibility", "C10,C04", "output continuation read side=%d of the winner, expected %d",
            obs.side_sum, d->code);
  ctx.Observe(static_cast<u64>(d - in.data()));
  u64 ready_stamp = tm.ready_at_ret ? tm.when_ret : obs.at;
  u64 max_set_ret = 0, max_set_call = 0;
  for (auto& s : in) {
    max_set_ret = s.set_ret > max_set_ret ? s.set_ret : max_set_ret;
    max_set_call = s.set_call > max_set_call ? s.set_call : max_set_call;
  }
  bool have_value = nfail < n;
  auto not_preceded_by = [&](const InSpec& w, bool values_only, bool fails_only, const char* oracle, const char* what) {
    for (auto& g : in) {
      if (&g == &w) {
        continue;
      }
      if (values_only && g.kind != kVal) {
        continue;
      }
      if (fails_only && g.kind == kVal) {
        continue;
      }
      ctx.Check(!(VisEnd(g, tm) < VisBegin(w, tm)), oracle, "C10",
                "%s: winner code=%d [%llu,%llu] but input code=%d completed strictly earlier [%llu,%llu]", what, w.code,
                (unsigned long long)VisBegin(w, tm), (unsigned long long)VisEnd(w, tm), g.code,
                (unsigned long long)VisBegin(g, tm), (unsigned long long)VisEnd(g, tm));
    }
  };
  if (P == FailPolicy::None) {
    not_preceded_by(*d, false, false, "any-which", "None policy: whatever completes first");
    ctx.Check(ready_stamp > d->set_call, "completes-early", "C10", "output ready before the winner's Set began");
    CheckUpper(ctx, obs, tm, d->set_ret, "C10", "the winner's Set");
  } else if (have_value) {
    ctx.Check(d->kind == kVal, "any-prefers-value", "C10",
              "%s: an input succeeded (e.g. values present) but the output is the failure of input code=%d",
              PolicyName(P), d->code);
    if (d->kind == kVal) {
      not_preceded_by(*d, true, false, "any-which", "first value wins");
      ctx.Check(ready_stamp > d->set_call, "completes-early", "C10", "output ready before the winner's Set began");
      CheckUpper(ctx, obs, tm, d->set_ret, "C10", "the winning value's Set");
    }
  } else {
    // every input failed
    ctx.Check(ready_stamp > max_set_call, "completes-early", "C10",
              "every input failed, but the output was ready (t=%llu) before the last input's Set began (t=%llu)",
              (unsigned long long)ready_stamp, (unsigned long long)max_set_call);
    CheckUpper(ctx, obs, tm, max_set_ret, "C10", "the last input's Set");
    if (P == FailPolicy::LastFail) {
      for (auto& g : in) {
        if (&g != d) {
          ctx.Check(!(VisBegin(g, tm) > VisEnd(*d, tm)), "any-which", "C10",
                    "LastFail: delivered failure code=%d [..,%llu] although input code=%d failed strictly later [%llu,..]",
                    d->code, (unsigned long long)VisEnd(*d, tm), g.code, (unsigned long long)VisBegin(g, tm));
        }
      }
    } else {
      not_preceded_by(*d, false, true, "any-which", "FirstFail: first failure when there is no value");
    }
  }
}

}  // namespace

#define ALL_CELLS(POL, pname, w)                                                                                       \
  VF_CELL(all_dynu_##POL, "all/" pname "/dynamic-unique", "C09,C03,C04", w) {                                         \
    AllCase<FailPolicy::POL>(ctx, aDynU);                                                                              \
  }                                                                                                                    \
  VF_CELL(all_dyns_##POL, "all/" pname "/dynamic-shared", "C09,C03,C04,C06", w) {                                     \
    AllCase<FailPolicy::POL>(ctx, aDynS);                                                                              \
  }                                                                                                                    \
  VF_CELL(all_stau_##POL, "all/" pname "/static-unique", "C09,C03,C04", w) {                                          \
    AllCase<FailPolicy::POL>(ctx, aStaU);                                                                              \
  }                                                                                                                    \
  VF_CELL(all_stas_##POL, "all/" pname "/static-shared", "C09,C03,C06", w) {                                          \
    AllCase<FailPolicy::POL>(ctx, aStaS);                                                                              \
  }                                                                                                                    \
  VF_CELL(all_mix_##POL, "all/" pname "/static-mixed", "C09,C03,C06", w) {                                            \
    AllCase<FailPolicy::POL>(ctx, aStaMix);                                                                            \
  }                                                                                                                    \
  VF_CELL(all_tuple_##POL, "all/" pname "/tuple", "C09,C03", w) {                                                     \
    AllTupleCase<FailPolicy::POL>(ctx);                                                                                \
  }                                                                                                                    \
  VF_CELL(join_dyn_##POL, "join/" pname "/dynamic", "C09,C03", w / 2) {                                               \
    JoinCase<FailPolicy::POL>(ctx, 0);                                                                                 \
  }                                                                                                                    \
  VF_CELL(join_sta_##POL, "join/" pname "/static-mixed", "C09,C03,C06", w / 2) {                                      \
    JoinCase<FailPolicy::POL>(ctx, 1);                                                                                 \
  }                                                                                                                    \
  VF_CELL(join_dyns_##POL, "join/" pname "/dynamic-shared", "C09,C03,C06", w / 2) {                                    \
    JoinCase<FailPolicy::POL>(ctx, 2);                                                                                 \
  }

ALL_CELLS(None, "None", 8)
ALL_CELLS(FirstFail, "FirstFail", 12)

VF_CELL(when_empty, "empty-input", "C09,C10", 1) {
  EmptyCase(ctx);
}

#define ANY_CELLS(POL, pname, w)                                                                                       \
  VF_CELL(any_dynu_##POL, "any/" pname "/dynamic-unique", "C10,C03,C04", w) {                                         \
    AnyCase<FailPolicy::POL>(ctx, yDynU);                                                                              \
  }                                                                                                                    \
  VF_CELL(any_dyns_##POL, "any/" pname "/dynamic-shared", "C10,C03,C06", w) {                                         \
    AnyCase<FailPolicy::POL>(ctx, yDynS);                                                                              \
  }                                                                                                                    \
  VF_CELL(any_stau_##POL, "any/" pname "/static-unique", "C10,C03,C04", w) {                                          \
    AnyCase<FailPolicy::POL>(ctx, yStaU);                                                                              \
  }                                                                                                                    \
  VF_CELL(any_stas_##POL, "any/" pname "/static-shared", "C10,C03,C06", w) {                                          \
    AnyCase<FailPolicy::POL>(ctx, yStaS);                                                                              \
  }                                                                                                                    \
  VF_CELL(any_mix_##POL, "any/" pname "/static-mixed", "C10,C03,C06", w) {                                            \
    AnyCase<FailPolicy::POL>(ctx, yStaMix);                                                                            \
  }

ANY_CELLS(None, "None", 8)
ANY_CELLS(FirstFail, "FirstFail", 10)
ANY_CELLS(LastFail, "LastFail", 12)

int main(int argc, char** argv) {
  return vf::Main(argc, argv, "when");
}
