// vf.hpp — common runtime-monitoring harness for the YACLib checks.
//
// One translation unit per scenario family includes this header, registers cells with VF_CELL and calls
// vf::Main from main().  A *case* = (cell, index); all random choices of a case (scheduler parameters and
// scenario choices) are drawn from a splitmix stream seeded by (master seed, family, cell name, index), so
// every case is reproducible from its descriptor.  Cases are executed by a pool of forked batch children that
// share one anonymous MAP_SHARED block with the supervisor: statistics, the set of distinct interleaving
// signatures, violation records and the "current case" of every worker live there, so a child that aborts
// (ASan/UBSan report, std::terminate, SIGSEGV, logical deadlock) is attributed to the exact case and the
// remaining cases of its batch are re-queued.
#pragma once

#include <yaclib/config.hpp>
#include <yaclib/fault/config.hpp>
#include <yaclib/fault/inject.hpp>
#include <yaclib/log.hpp>
#include <yaclib/util/result.hpp>

#if YACLIB_FAULT == 2
#  include <yaclib/fault/detail/fiber/scheduler.hpp>
#  define VF_FIBER 1
#else
#  define VF_FIBER 0
#endif

#include <yaclib_std/thread>

#include <atomic>
#include <chrono>
#include <cstdarg>
#include <cstdint>
#include <cstdio>
#include <cstdlib>
#include <cstring>
#include <exception>
#include <new>
#include <string>
#include <vector>

#include <fcntl.h>
#include <signal.h>
#include <sys/mman.h>
#include <sys/stat.h>
#include <sys/wait.h>
#include <time.h>
#include <unistd.h>

#if defined(__SANITIZE_ADDRESS__)
#  define VF_ASAN 1
#  include <sanitizer/lsan_interface.h>
#else
#  define VF_ASAN 0
#endif
#if defined(__SANITIZE_THREAD__)
#  define VF_TSAN 1
#else
#  define VF_TSAN 0
#endif

namespace vf {

using u64 = std::uint64_t;
using u32 = std::uint32_t;

inline constexpr auto kRlx = std::memory_order_relaxed;

////////////////////////////////////////////////////////////////////////////////////////////////////
// deterministic randomness

inline u64 Mix(u64 x) noexcept {
  x += 0x9E3779B97F4A7C15ull;
  x = (x ^ (x >> 30)) * 0xBF58476D1CE4E5B9ull;
  x = (x ^ (x >> 27)) * 0x94D049BB133111EBull;
  return x ^ (x >> 31);
}

inline u64 HashStr(const char* s) noexcept {
  u64 h = 1469598103934665603ull;
  for (; *s; ++s) {
    h = (h ^ static_cast<unsigned char>(*s)) * 1099511628211ull;
  }
  return h;
}

struct Rng {
  u64 s;
  u64 Next() noexcept {
    s += 0x9E3779B97F4A7C15ull;
    u64 x = s;
    x = (x ^ (x >> 30)) * 0xBF58476D1CE4E5B9ull;
    x = (x ^ (x >> 27)) * 0x94D049BB133111EBull;
    return x ^ (x >> 31);
  }
  u32 Below(u32 n) noexcept {
    return n == 0 ? 0 : static_cast<u32>(Next() % n);
  }
  bool Coin() noexcept {
    return (Next() & 1) != 0;
  }
  // inclusive range
  u32 In(u32 lo, u32 hi) noexcept {
    return lo + Below(hi - lo + 1);
  }
};

////////////////////////////////////////////////////////////////////////////////////////////////////
// allocation counters (global operator new/delete are replaced below, malloc-based so ASan still sees them)

inline std::atomic<long> g_news{0};
inline std::atomic<long> g_deletes{0};

////////////////////////////////////////////////////////////////////////////////////////////////////
// logical clock: every boundary event of a scenario takes a stamp; relaxed only, so that under TSan the
// monitor never adds a happens-before edge the library does not provide.

inline std::atomic<u64> g_clock{0};
inline u64 Stamp() noexcept {
  return g_clock.fetch_add(1, kRlx) + 1;
}
inline u64 ClockNow() noexcept {
  return g_clock.load(kRlx);
}

////////////////////////////////////////////////////////////////////////////////////////////////////
// shared block

inline constexpr int kMaxCells = 192;
inline constexpr int kMaxClasses = 16;
inline constexpr int kMaxViol = 4096;
inline constexpr int kMaxWorkers = 64;
inline constexpr int kMaxSites = 96;
inline constexpr int kSamplesPerCell = 2;
inline constexpr u64 kSetBits = 23;  // 8M slots = 64 MiB virtual, touched lazily
inline constexpr u64 kSetSize = 1ull << kSetBits;

struct CellStat {
  std::atomic<u64> cases, nontrivial, distinct, distinct_nt, events, switches;
  std::atomic<u64> cls[kMaxClasses];
  std::atomic<int> cls_state[kMaxClasses];  // 0 free, 1 being written, 2 ready
  char cls_name[kMaxClasses][40];
  std::atomic<u32> nsamples;
  char samples[kSamplesPerCell][480];
};

struct ViolRec {
  std::atomic<int> ready;
  char key[200];
  char props[48];
  char desc[200];
  char detail[1200];
};

struct WorkerSlot {
  std::atomic<u64> heartbeat;
  std::atomic<int> cell;
  std::atomic<u64> idx;
  std::atomic<int> phase;  // 0 idle, 1 running a case, 2 between cases
  std::atomic<int> done;   // the batch child ran its whole batch and is exiting on purpose
};

struct Site {
  std::atomic<int> state;
  std::atomic<u64> count;
  char name[160];
};

struct Shm {
  CellStat cell[kMaxCells];
  std::atomic<u32> nviol;
  std::atomic<u64> viol_total;
  ViolRec viol[kMaxViol];
  WorkerSlot w[kMaxWorkers];
  Site sites[kMaxSites];
  std::atomic<u64> inconclusive;
  std::atomic<u64> crashes;
  std::atomic<u64> set_used;
  std::atomic<u64> set_saturated;
  std::atomic<u64> tsan_reports;
  std::atomic<u64> hb_syncs, hb_checks, hb_disabled;  // happens-before monitor: sync events seen, plain accesses checked, cases it gave up on
  std::atomic<u64> reruns;
  std::atomic<u64> set[kSetSize];
};

inline Shm* g_shm = nullptr;

// returns true if newly inserted
inline bool SetInsert(u64 h) noexcept {
  if (h == 0) {
    h = 1;
  }
  if (g_shm->set_used.load(kRlx) > kSetSize / 2) {
    g_shm->set_saturated.store(1, kRlx);
    return false;
  }
  u64 i = Mix(h) & (kSetSize - 1);
  for (;;) {
    u64 cur = g_shm->set[i].load(kRlx);
    if (cur == h) {
      return false;
    }
    if (cur == 0) {
      if (g_shm->set[i].compare_exchange_strong(cur, h, kRlx)) {
        g_shm->set_used.fetch_add(1, kRlx);
        return true;
      }
      if (cur == h) {
        return false;
      }
    }
    i = (i + 1) & (kSetSize - 1);
  }
}

////////////////////////////////////////////////////////////////////////////////////////////////////
// cells

struct Ctx;
using CellFn = void (*)(Ctx&);

struct Cell {
  const char* name;   // cell class, used in violation keys
  const char* props;  // comma separated property ids this cell serves
  unsigned weight;
  CellFn fn;
  bool raw = false;  // the cell manages fault::Scheduler instances itself (runs on the process stack)
};

inline std::vector<Cell>& Cells() {
  static std::vector<Cell> cells;
  return cells;
}

struct Registrar {
  Registrar(const char* name, const char* props, unsigned weight, CellFn fn, bool raw = false) {
    Cells().push_back({name, props, weight, fn, raw});
  }
};

#define VF_CAT2(a, b) a##b
#define VF_CAT(a, b) VF_CAT2(a, b)
#define VF_CELL(ident, name, props, weight)                                                                            \
  static void VF_CAT(vf_cell_, ident)(::vf::Ctx & ctx);                                                                \
  static ::vf::Registrar VF_CAT(vf_reg_, ident){name, props, weight, &VF_CAT(vf_cell_, ident)};                        \
  static void VF_CAT(vf_cell_, ident)(::vf::Ctx & ctx)

#define VF_CELL_RAW(ident, name, props, weight)                                                                        \
  static void VF_CAT(vf_cell_, ident)(::vf::Ctx & ctx);                                                                \
  static ::vf::Registrar VF_CAT(vf_reg_, ident){name, props, weight, &VF_CAT(vf_cell_, ident), true};                  \
  static void VF_CAT(vf_cell_, ident)(::vf::Ctx & ctx)

inline bool HasProp(const char* props, const char* p) noexcept {
  if (p == nullptr || *p == 0) {
    return true;
  }
  const char* f = std::strstr(props, p);
  return f != nullptr;
}

struct Config {
  const char* family = "?";
  const char* prop = "";  // property filter
  const char* cell_filter = "";
  u64 seed = 0;
  u64 cases = 1000;
  int jobs = 16;
  const char* out = nullptr;
  const char* logdir = "/tmp";
  bool one = false;
  const char* one_cell = "";
  u64 one_idx = 0;
  u64 budget = 2000000;  // resumes per case (fiber) before "inconclusive"
  int hang_s = VF_FIBER ? 60 : 20;      // watchdog per case (wall clock; firing = inconclusive, never a violation by itself)
  bool verbose = false;
  unsigned batch = 0;
};

inline Config g_cfg;

struct Params {
  u32 seed = 1;
  u32 freq = 2;
  u32 pick = 10;
  u32 casfail = 13;
  u32 inj0 = 0;
  u32 sleep_ns = 200;
  u32 tick = 10;
};

////////////////////////////////////////////////////////////////////////////////////////////////////
// library assertion routing

struct AssertRule {
  const char* file_sub;
  const char* text_sub;  // matched against condition + message
  const char* oracle;    // nullptr: never a verdict, only counted
  const char* props;
};

// Sites that express one of the given properties.  Everything else is only recorded (evidence), because a check
// must not demand more than its property states.
inline const AssertRule kAssertRules[] = {
  {"base_core.cpp", "expected != kResult", "lib-assert-double-set", "C01,C06"},
  {"result_core.hpp", "kResult", "lib-assert-core-destroyed-unset", "C01,C03,C06"},
  {"timed_mutex", "locked twice", "lib-assert-locked-twice", "C18"},
  {"mutex.cpp", "locked twice", "lib-assert-locked-twice", "C18"},
  {"mutex", "owner", "lib-assert-owner", "C18"},
  {"strand.cpp", "Strand not empty", "lib-assert-strand-not-empty", "C07"},
  {"intrusive_list.cpp", "invariant", "lib-assert-list-invariant", "C08,C05"},
  {"queue.cpp", "potentially deadlock", nullptr, ""},
  {"scheduler.cpp", "sleep_list", nullptr, ""},
};

////////////////////////////////////////////////////////////////////////////////////////////////////
// per-case context

inline int g_slot = 0;
inline bool g_child = false;

inline void JsonEscape(std::string& out, const char* s) {
  for (; *s; ++s) {
    unsigned char c = static_cast<unsigned char>(*s);
    if (c == '"' || c == '\\') {
      out.push_back('\\');
      out.push_back(static_cast<char>(c));
    } else if (c == '\n') {
      out += "\\n";
    } else if (c == '\t') {
      out += "\\t";
    } else if (c < 0x20) {
      char b[8];
      std::snprintf(b, sizeof b, "\\u%04x", c);
      out += b;
    } else {
      out.push_back(static_cast<char>(c));
    }
  }
}

struct Ctx {
  const Cell* cell = nullptr;
  int cell_id = 0;
  u64 idx = 0;
  Rng rng{0};
  Params p;
  bool want_sample = false;
  bool nontrivial = false;
  bool nt_explicit = false;  // the family decides non-triviality itself (SetNontrivial)
  bool failed = false;
  int pass = 0;  // 0 first execution, 1 confirmation re-run (alloc balance)
  u64 obs = 0;
  u64 events = 0;
  char note[440];
  std::size_t note_len = 0;

  void Desc(char* buf, std::size_t n) const {
    std::snprintf(buf, n, "family=%s cell=%s idx=%llu seed=%llu sched=[seed=%u freq=%u pick=%u casfail=%u inj0=%u]",
                  g_cfg.family, cell->name, (unsigned long long)idx, (unsigned long long)g_cfg.seed, p.seed, p.freq,
                  p.pick, p.casfail, p.inj0);
  }

  // Record a violation of `oracle` (key = family/cell:oracle).  props: which properties this oracle expresses
  // ("" = all properties of the cell).
  void Fail(const char* oracle, const char* props, const char* fmt, ...) __attribute__((format(printf, 4, 5))) {
    failed = true;
    char detail[1000];
    va_list ap;
    va_start(ap, fmt);
    std::vsnprintf(detail, sizeof detail, fmt, ap);
    va_end(ap);
    g_shm->viol_total.fetch_add(1, kRlx);
    u32 i = g_shm->nviol.fetch_add(1, kRlx);
    if (g_cfg.one || g_cfg.verbose) {
      std::fprintf(stdout, "VIOL %s/%s:%s  %s\n", g_cfg.family, cell->name, oracle, detail);
      std::fflush(stdout);
    }
    if (i >= kMaxViol) {
      return;
    }
    auto& r = g_shm->viol[i];
    std::snprintf(r.key, sizeof r.key, "%s/%s:%s", g_cfg.family, cell->name, oracle);
    std::snprintf(r.props, sizeof r.props, "%s", (props != nullptr && *props) ? props : cell->props);
    Desc(r.desc, sizeof r.desc);
    std::snprintf(r.detail, sizeof r.detail, "%s", detail);
    r.ready.store(1, std::memory_order_release);
  }

  bool Check(bool ok, const char* oracle, const char* props, const char* fmt, ...)
    __attribute__((format(printf, 5, 6))) {
    events++;
    if (ok) {
      return true;
    }
    char detail[900];
    va_list ap;
    va_start(ap, fmt);
    std::vsnprintf(detail, sizeof detail, fmt, ap);
    va_end(ap);
    Fail(oracle, props, "%s", detail);
    return false;
  }

  void SetNontrivial(bool v) noexcept {
    nt_explicit = true;
    nontrivial = v;
  }

  // outcome class counters per cell (e.g. "attach-won", "timeout")
  void Class(const char* name) noexcept {
    if (pass != 0) {
      return;
    }
    auto& cs = g_shm->cell[cell_id];
    for (int i = 0; i < kMaxClasses; ++i) {
      int st = cs.cls_state[i].load(std::memory_order_acquire);
      if (st == 0) {
        int exp = 0;
        if (cs.cls_state[i].compare_exchange_strong(exp, 1, std::memory_order_acq_rel)) {
          std::snprintf(cs.cls_name[i], sizeof cs.cls_name[i], "%s", name);
          cs.cls_state[i].store(2, std::memory_order_release);
          cs.cls[i].fetch_add(1, kRlx);
          return;
        }
        st = exp;
      }
      while (st == 1) {
        st = cs.cls_state[i].load(std::memory_order_acquire);
      }
      if (std::strncmp(cs.cls_name[i], name, sizeof cs.cls_name[i] - 1) == 0) {
        cs.cls[i].fetch_add(1, kRlx);
        return;
      }
    }
  }

  // fold a client-visible observation into the case's observation hash (order sensitive via the logical clock)
  void Observe(u64 x) noexcept {
    u64 pos = Stamp();
    reinterpret_cast<std::atomic<u64>&>(obs).fetch_xor(Mix(x * 0x100000001B3ull + pos), kRlx);
  }

  void Note(const char* fmt, ...) __attribute__((format(printf, 2, 3))) {
    if ((!want_sample && !g_cfg.one) || note_len + 2 >= sizeof note) {
      return;
    }
    va_list ap;
    va_start(ap, fmt);
    int n = std::vsnprintf(note + note_len, sizeof note - note_len, fmt, ap);
    va_end(ap);
    if (n > 0) {
      if (g_cfg.one) {
        std::fprintf(stdout, "NOTE %s\n", note + note_len);
        std::fflush(stdout);
      }
      note_len += static_cast<std::size_t>(n);
      if (note_len >= sizeof note) {
        note_len = sizeof note - 1;
      }
    }
  }
};

inline Ctx* g_ctx = nullptr;

}  // namespace vf
#include "vf_hb.hpp"
namespace vf {

#if VF_FIBER
inline u64 hb::CurrentFiberId() noexcept {
  auto* f = yaclib::fault::Scheduler::Current();
  return f != nullptr ? static_cast<u64>(f->GetId()) : 0;
}
// annotated plain accesses: the words a producer writes before publishing / an observer reads after observing
#  define VF_W(x, props) ::vf::hb::Write(&(x), #x, props)
#  define VF_R(x, props) ::vf::hb::Read(&(x), #x, props)
#else
inline u64 hb::CurrentFiberId() noexcept {
  return 0;
}
#  define VF_W(x, props) ((void)0)
#  define VF_R(x, props) ((void)0)
#endif

////////////////////////////////////////////////////////////////////////////////////////////////////
// interleaving trace (fiber resume hook)

struct Trace {
  u64 hash = 0;
  u64 resumes = 0;
  u64 switches = 0;
  u64 last = 0;
  u64 ids[64];
  int nids = 0;
  void Reset() noexcept {
    hash = 0;
    resumes = 0;
    switches = 0;
    last = ~0ull;
    nids = 0;
  }
  u64 Norm(u64 id) noexcept {
    for (int i = 0; i < nids; ++i) {
      if (ids[i] == id) {
        return static_cast<u64>(i);
      }
    }
    if (nids < 64) {
      ids[nids] = id;
      return static_cast<u64>(nids++);
    }
    return 64 + (id & 0xff);
  }
};

inline Trace g_trace;
inline void (*g_raw_hook)(u64 fiber_id, u64 time_ns) = nullptr;  // replaces ResumeHook (families with raw cells)
inline void (*g_trace_sink)(u64 norm_id, u64 time_ns) = nullptr;  // optional full trace consumer (C17)

[[noreturn]] inline void ChildExit(int code) noexcept {
  std::fflush(stdout);
  std::fflush(stderr);
  _exit(code);
}

#if VF_FIBER
inline void ResumeHook(u64 fiber_id, u64 time_ns) {
  auto& t = g_trace;
  u64 n = t.Norm(fiber_id);
  t.resumes++;
  if (n != t.last) {
    t.switches++;
    t.last = n;
  }
  t.hash = Mix(t.hash ^ (n + 1));
  if (g_trace_sink != nullptr) {
    g_trace_sink(n, time_ns);
  }
  if (t.resumes > g_cfg.budget) {
    g_shm->inconclusive.fetch_add(1, kRlx);
    if (g_ctx != nullptr) {
      char d[200];
      g_ctx->Desc(d, sizeof d);
      std::fprintf(stderr, "INCONCLUSIVE resume budget exceeded: %s\n", d);
      // Recorded for the driver, which re-runs this (deterministic) case with a ten times larger budget: only a case
      // that does not finish then either is reported (as a livelock); otherwise it stays inconclusive.
      g_ctx->Fail("resume-budget", "", "the scenario did not finish within %llu fiber resumes on this schedule",
                  (unsigned long long)g_cfg.budget);
    }
    ChildExit(78);
  }
}
#endif

////////////////////////////////////////////////////////////////////////////////////////////////////
// library assertions

inline int g_assert_hits = 0;

inline void RecordSite(const char* name) noexcept {
  for (int i = 0; i < kMaxSites; ++i) {
    auto& s = g_shm->sites[i];
    int st = s.state.load(std::memory_order_acquire);
    if (st == 0) {
      int exp = 0;
      if (s.state.compare_exchange_strong(exp, 1, std::memory_order_acq_rel)) {
        std::snprintf(s.name, sizeof s.name, "%s", name);
        s.state.store(2, std::memory_order_release);
        s.count.fetch_add(1, kRlx);
        return;
      }
      st = exp;
    }
    while (st == 1) {
      st = s.state.load(std::memory_order_acquire);
    }
    if (std::strncmp(s.name, name, sizeof s.name - 1) == 0) {
      s.count.fetch_add(1, kRlx);
      return;
    }
  }
}

inline void LibAssert(std::string_view file, std::size_t line, std::string_view /*func*/, std::string_view cond,
                      std::string_view msg) noexcept {
  std::string f{file};
  auto pos = f.rfind("/yaclib/");
  std::string base = pos == std::string::npos ? f : f.substr(pos + 8);
  auto pos2 = f.rfind("/src/");
  if (pos == std::string::npos && pos2 != std::string::npos) {
    base = f.substr(pos2 + 1);
  }
  std::string text{cond};
  text += " | ";
  text += std::string{msg};
  char site[160];
  std::snprintf(site, sizeof site, "%s:%zu %s", base.c_str(), line, text.c_str());
  if (g_shm != nullptr) {
    RecordSite(site);
  }
  for (const auto& r : kAssertRules) {
    if (f.find(r.file_sub) != std::string::npos && text.find(r.text_sub) != std::string::npos) {
      if (r.oracle != nullptr && g_ctx != nullptr && g_assert_hits < 3) {
        g_assert_hits++;
        g_ctx->Fail(r.oracle, r.props, "library assertion %s", site);
      }
      return;
    }
  }
}

////////////////////////////////////////////////////////////////////////////////////////////////////
// tracked payload: canary + moved flag + live count

struct TrackedStats {
  std::atomic<long> live{0};
  std::atomic<long> bad{0};
  std::atomic<long> ctors{0};
  std::atomic<long> dtors{0};
};
inline TrackedStats g_tracked;

struct Tracked {
  static constexpr u64 kMagic = 0x7AC4ED00C0FFEE11ull;
  static constexpr u64 kDead = 0xDEADDEADDEADDEADull;
  u64 magic;
  int v;
  bool moved;

  Tracked() noexcept : Tracked(0) {
  }
  // Every access of the payload - by the harness or by the library copying, moving and destroying stored values and
  // functor captures - is reported to the happens-before monitor (fiber engines): reads of the source of a copy, writes
  // to the source of a move, the destruction as a write.  "Destroyed only after all other accesses" and "moved out
  // only by the last observer" (C04) thereby become ordering checks under the C++ memory model.
  explicit Tracked(int x) noexcept : magic{kMagic ^ static_cast<u64>(static_cast<u32>(x))}, v{x}, moved{false} {
    hb::Forget(this);
    hb::Write(this, "payload (constructed)", "C04");
    g_tracked.live.fetch_add(1, kRlx);
    g_tracked.ctors.fetch_add(1, kRlx);
  }
  Tracked(const Tracked& o) noexcept : magic{o.magic}, v{o.v}, moved{o.moved} {
    hb::Forget(this);
    hb::Write(this, "payload (constructed)", "C04");
    if (!o.Good()) {
      g_tracked.bad.fetch_add(1, kRlx);
    }
    g_tracked.live.fetch_add(1, kRlx);
    g_tracked.ctors.fetch_add(1, kRlx);
  }
  Tracked(Tracked&& o) noexcept : magic{o.magic}, v{o.v}, moved{o.moved} {
    hb::Forget(this);
    hb::Write(this, "payload (constructed)", "C04");
    if (!o.Good()) {
      g_tracked.bad.fetch_add(1, kRlx);
    }
    hb::Write(&o, "payload (moved from)", "C04");
    o.moved = true;
    g_tracked.live.fetch_add(1, kRlx);
    g_tracked.ctors.fetch_add(1, kRlx);
  }
  Tracked& operator=(const Tracked& o) noexcept {
    if (!o.Good() || !Good()) {
      g_tracked.bad.fetch_add(1, kRlx);
    }
    hb::Write(this, "payload (assigned)", "C04");
    magic = o.magic;
    v = o.v;
    moved = o.moved;
    return *this;
  }
  Tracked& operator=(Tracked&& o) noexcept {
    if (!o.Good() || !Good()) {
      g_tracked.bad.fetch_add(1, kRlx);
    }
    hb::Write(this, "payload (assigned)", "C04");
    hb::Write(&o, "payload (moved from)", "C04");
    magic = o.magic;
    v = o.v;
    moved = o.moved;
    o.moved = true;
    return *this;
  }
  ~Tracked() noexcept {
    if (!Good()) {
      g_tracked.bad.fetch_add(1, kRlx);  // double destruction or corrupted
    }
    hb::Write(this, "payload (destroyed)", "C04");
    hb::Forget(this);
    magic = kDead;
    g_tracked.live.fetch_sub(1, kRlx);
    g_tracked.dtors.fetch_add(1, kRlx);
  }
  // canary intact (object constructed, not destroyed, not torn)
  [[nodiscard]] bool Good() const noexcept {
    hb::Read(this, "payload", "C04");
    return magic == (kMagic ^ static_cast<u64>(static_cast<u32>(v)));
  }
  // readable value: intact and not moved-from
  [[nodiscard]] bool Fresh() const noexcept {
    return Good() && !moved;
  }
};

// move-only payload
struct MoveOnly {
  Tracked t;
  explicit MoveOnly(int x) noexcept : t{x} {
  }
  MoveOnly(MoveOnly&&) noexcept = default;
  MoveOnly& operator=(MoveOnly&&) noexcept = default;
  MoveOnly(const MoveOnly&) = delete;
  MoveOnly& operator=(const MoveOnly&) = delete;
};

// error type used next to StopError; it carries a tracked member so that error payloads are subject to the same lifetime
// (leak, double destruction) and happens-before checks as values
struct MyError {
  int code = 0;
  Tracked life{0};
  MyError() noexcept = default;
  explicit MyError(int c) noexcept : code{c} {
  }
  MyError(yaclib::StopTag) noexcept : code{-1} {
  }
  bool operator==(const MyError& o) const noexcept {
    return code == o.code;
  }
  [[nodiscard]] const char* What() const noexcept {
    return "MyError";
  }
};

struct MyException {
  int code;
};

////////////////////////////////////////////////////////////////////////////////////////////////////
// running one case

inline void DeriveParams(Ctx& c) {
  Rng& r = c.rng;
  c.p.seed = static_cast<u32>(r.Next());
  // strategy grid: small freq = pre-empt at almost every yaclib_std operation; large = long uninterrupted runs
  static const u32 freqs[] = {1, 1, 2, 2, 3, 4, 6, 9, 16};
  c.p.freq = freqs[r.Below(9)];
  static const u32 picks[] = {1, 2, 3, 5, 10, 10};
  c.p.pick = picks[r.Below(6)];
  static const u32 cas[] = {0, 2, 3, 13, 13};
  c.p.casfail = cas[r.Below(5)];
  c.p.inj0 = r.Below(c.p.freq + 1);
  c.p.sleep_ns = VF_FIBER ? 200 : (r.Coin() ? 200 : 2000);
  c.p.tick = 10;
}

inline void ApplyParams(const Params& p) {
  yaclib::SetSeed(p.seed);
  yaclib::SetFaultFrequency(p.freq);
  yaclib::SetFaultSleepTime(p.sleep_ns);
  yaclib::SetAtomicFailFrequency(p.casfail);
  yaclib::fiber::SetFaultRandomListPick(p.pick);
  yaclib::fiber::SetFaultTickLength(p.tick);
  yaclib::fiber::SetInjectorState(p.inj0);
}

inline u64 CaseSeed(const Cell& cell, u64 idx) {
  return Mix(Mix(g_cfg.seed ^ HashStr(g_cfg.family)) ^ Mix(HashStr(cell.name) + idx * 0x9E3779B97F4A7C15ull));
}

struct CaseResult {
  bool failed = false;
  long alloc_delta = 0;
  long tracked_delta = 0;
};

#if VF_TSAN
inline std::atomic<u64> g_tsan_count{0};
inline const char* g_errpath = nullptr;
inline off_t g_err_off = 0;
// text the sanitizer appended to this worker's stderr file since the last call
inline std::string NewStderr(std::size_t max) {
  std::string s;
  if (g_errpath == nullptr) {
    return s;
  }
  int fd = open(g_errpath, O_RDONLY);
  if (fd < 0) {
    return s;
  }
  off_t end = lseek(fd, 0, SEEK_END);
  if (end > g_err_off) {
    std::size_t n = static_cast<std::size_t>(end - g_err_off);
    if (n > max) {
      n = max;
    }
    s.resize(n);
    ssize_t r = pread(fd, s.data(), n, g_err_off);
    s.resize(r > 0 ? static_cast<std::size_t>(r) : 0);
    g_err_off = end;
  }
  close(fd);
  return s;
}
#endif

// Executes the cell body once (pass 0) or again (pass 1) with identical random choices.
// A race (ThreadSanitizer report or happens-before monitor) is always a C04 violation.  It also refutes the property of
// the cell it occurred in where that property itself promises visibility / happens-before or an intact outcome:
// consecutive Strand jobs (C07) and Mutex critical sections (C14) write plain shared payload; "Ready() becomes true only
// once that Result can be read ... never delivered torn" (C01) and "Ready()==true implies the value can be read, no
// observer reads a partially written value" (C06) are statements under the C++ memory model, where a racing read of the
// Result is exactly a torn delivery; WhenAll/WhenAny promise to carry an input's value / error (C09, C10): a racing
// write of the recorded outcome is a torn outcome.
inline std::string RaceExtraProps(const Cell& cell) {
  static const struct {
    const char* family;
    const char* prefix;
    const char* prop;
  } kHbRules[] = {{"exec", "strand/", ",C07"}, {"cmutex", "mutex/", ",C14"}, {"core", "", ",C01"}, {"shared", "", ",C06"},
                  {"when", "all/", ",C09"},    {"when", "join/", ",C09"},    {"when", "any/", ",C10"}};
  std::string props;
  for (auto& r : kHbRules) {
    if (std::strcmp(g_cfg.family, r.family) == 0 && std::strncmp(cell.name, r.prefix, std::strlen(r.prefix)) == 0) {
      props += r.prop;
    }
  }
  return props;
}

// Properties, besides C03, whose own statement promises release and that the lifecycle oracles (tracked objects alive at
// quiescence, LeakSanitizer, operator new/delete balance) therefore also decide in the cells that exercise them:
// C09/C10 "every input is consumed and released exactly once", C16 "consumed ones are released exactly once",
// C13 "its frame, including live locals, is destroyed exactly once".
inline std::string LifecycleProps(const Cell& cell) {
  static const struct {
    const char* family;
    const char* prefix;
    const char* prop;
  } kRules[] = {{"when", "all/", ",C09"}, {"when", "join/", ",C09"}, {"when", "any/", ",C10"},
                {"wg", "waitgroup/", ",C16"},  {"coro", "", ",C13"},
                // C12 "destroying [a Task] that already completed just releases its result", "releases every captured functor"
                {"coro", "await-lazy-task", ",C12"}, {"coro", "task-coroutine/", ",C12"}};
  std::string props = "C03";
  for (auto& r : kRules) {
    if (std::strcmp(g_cfg.family, r.family) == 0 && std::strncmp(cell.name, r.prefix, std::strlen(r.prefix)) == 0) {
      props += r.prop;
    }
  }
  return props;
}

inline CaseResult Execute(const Cell& cell, int cell_id, u64 idx, int pass, bool want_sample) {
  Ctx ctx;
  ctx.cell = &cell;
  ctx.cell_id = cell_id;
  ctx.idx = idx;
  ctx.rng.s = CaseSeed(cell, idx);
  ctx.pass = pass;
  ctx.want_sample = want_sample;
  DeriveParams(ctx);
  g_ctx = &ctx;
  g_assert_hits = 0;
  auto& slot = g_shm->w[g_slot];
  slot.cell.store(cell_id, kRlx);
  slot.idx.store(idx, kRlx);
  slot.phase.store(1, kRlx);
  slot.heartbeat.fetch_add(1, kRlx);

  long live0 = g_tracked.live.load(kRlx);
  long bad0 = g_tracked.bad.load(kRlx);
#if VF_TSAN
  u64 tsan0 = g_tsan_count.load(kRlx);
#endif
  CaseResult res;
#if VF_FIBER
  if (cell.raw) {
    g_trace.Reset();
    long bal0 = g_news.load(kRlx) - g_deletes.load(kRlx);
    try {
      cell.fn(ctx);
    } catch (...) {
      ctx.Fail("harness-exception", "", "exception escaped the scenario body");
    }
    res.alloc_delta = (g_news.load(kRlx) - g_deletes.load(kRlx)) - bal0;
  } else {
    yaclib::fault::Scheduler sched;
    yaclib::fault::Scheduler::Set(&sched);
    ApplyParams(ctx.p);
    g_trace.Reset();
    hb::Reset();
    hb::g.on = true;
    u64 hb_s0 = hb::g.syncs, hb_c0 = hb::g.checks;
    long bal0 = g_news.load(kRlx) - g_deletes.load(kRlx);
    bool done = false;
    {
      yaclib_std::thread root([&] {
        try {
          cell.fn(ctx);
        } catch (...) {
          ctx.Fail("harness-exception", "", "exception escaped the scenario body");
        }
        done = true;
      });
      if (!done) {
        // Nothing runnable, nothing sleeping, root not finished: a lost wake-up / lost job / lost grant on this
        // schedule.  Parked stacks cannot be unwound.
        ctx.Fail("parked-at-quiescence", "", "scheduler ran dry with the scenario unfinished (resumes=%llu)",
                 (unsigned long long)g_trace.resumes);
        ChildExit(77);
      }
      root.join();
    }
    yaclib::fault::Scheduler::Set(nullptr);
    res.alloc_delta = (g_news.load(kRlx) - g_deletes.load(kRlx)) - bal0;
    hb::g.on = false;
    if (pass == 0) {
      g_shm->hb_syncs.fetch_add(hb::g.syncs - hb_s0, kRlx);
      g_shm->hb_checks.fetch_add(hb::g.checks - hb_c0, kRlx);
      g_shm->hb_disabled.fetch_add(hb::g.disabled ? 1 : 0, kRlx);
    }
    if (hb::g.race.found) {
      std::string oracle = std::string("hb-race@") + hb::g.race.label;
      std::string rp = std::string(hb::g.race.props) + RaceExtraProps(cell);
      ctx.Fail(oracle.c_str(), rp.c_str(), "%s", hb::g.race.text);
    }
  }
#else
  ApplyParams(ctx.p);
  try {
    cell.fn(ctx);
  } catch (...) {
    ctx.Fail("harness-exception", "", "exception escaped the scenario body");
  }
#endif
  res.tracked_delta = g_tracked.live.load(kRlx) - live0;
  long bad = g_tracked.bad.load(kRlx) - bad0;
  ctx.Check(bad == 0, "canary", "", "%ld tracked objects seen torn, destroyed twice or used after destruction", bad);
  ctx.Check(res.tracked_delta == 0, "tracked-leak", LifecycleProps(cell).c_str(),
            "tracked payload/functor objects still alive at quiescence: %ld", res.tracked_delta);
#if VF_TSAN
  u64 tsan = g_tsan_count.load(kRlx) - tsan0;
  if (tsan != 0) {
    g_shm->tsan_reports.fetch_add(tsan, kRlx);
    std::string rep = NewStderr(60000);
    // keep the head of the first report and every SUMMARY line
    std::string brief = rep.substr(0, 700);
    std::size_t pos = 0;
    while ((pos = rep.find("SUMMARY:", pos)) != std::string::npos) {
      auto e = rep.find('\n', pos);
      brief += "\n" + rep.substr(pos, e == std::string::npos ? std::string::npos : e - pos);
      pos = e == std::string::npos ? rep.size() : e;
    }
    // key by the first library frame of the first report (function name without template arguments)
    std::string site = "unknown";
    {
      std::size_t lp = rep.find("/yaclib/");
      if (lp != std::string::npos) {
        std::size_t ls = rep.rfind('\n', lp);
        ls = ls == std::string::npos ? 0 : ls + 1;
        std::string line = rep.substr(ls, lp - ls);
        std::size_t h = line.find('#');
        std::size_t sp = h == std::string::npos ? std::string::npos : line.find(' ', h);
        if (sp != std::string::npos) {
          std::string fn = line.substr(sp + 1);
          std::string out;
          int depth = 0;
          for (char ch : fn) {
            if (ch == '<') {
              depth++;
            } else if (ch == '>') {
              depth--;
            } else if (depth == 0) {
              if (ch == '(' || ch == ' ') {
                break;
              }
              out.push_back(ch);
            }
          }
          if (!out.empty()) {
            site = out;
          }
        }
      }
    }
    std::string oracle = "tsan-race@" + site;
    std::string props = "C04" + RaceExtraProps(cell);
    ctx.Fail(oracle.c_str(), props.c_str(), "%llu ThreadSanitizer report(s) during this case:\n%s",
             (unsigned long long)tsan, brief.c_str());
  }
#endif
  res.failed = ctx.failed;
  if (pass == 0) {
    auto& cs = g_shm->cell[cell_id];
    cs.cases.fetch_add(1, kRlx);
    cs.events.fetch_add(ctx.events, kRlx);
#if VF_FIBER
    cs.switches.fetch_add(g_trace.switches, kRlx);
    u64 sig = Mix(g_trace.hash ^ HashStr(cell.name) ^ Mix(ctx.obs));
    bool nt = ctx.nt_explicit ? ctx.nontrivial : g_trace.switches >= 4;
#else
    u64 sig = Mix(ctx.obs ^ HashStr(cell.name));
    bool nt = ctx.nontrivial;
#endif
    if (nt) {
      cs.nontrivial.fetch_add(1, kRlx);
    }
    if (SetInsert(sig)) {
      cs.distinct.fetch_add(1, kRlx);
      if (nt) {
        cs.distinct_nt.fetch_add(1, kRlx);
      }
    }
    if (want_sample) {
      u32 k = cs.nsamples.fetch_add(1, kRlx);
      if (k < kSamplesPerCell) {
        char d[200];
        ctx.Desc(d, sizeof d);
        ctx.note[ctx.note_len] = 0;
#if VF_FIBER
        std::snprintf(cs.samples[k], sizeof cs.samples[k], "%s resumes=%llu switches=%llu fibers=%d :: %s", d,
                      (unsigned long long)g_trace.resumes, (unsigned long long)g_trace.switches, g_trace.nids,
                      ctx.note);
#else
        std::snprintf(cs.samples[k], sizeof cs.samples[k], "%s :: %s", d, ctx.note);
#endif
      }
    }
  }
  slot.phase.store(2, kRlx);
  g_ctx = nullptr;
  return res;
}

inline void RunCase(const Cell& cell, int cell_id, u64 idx) {
  auto& cs = g_shm->cell[cell_id];
  bool want_sample = cs.nsamples.load(kRlx) < kSamplesPerCell;
  CaseResult r = Execute(cell, cell_id, idx, 0, want_sample);
#if VF_FIBER
  if (r.alloc_delta != 0 && !r.failed) {
    // Fiber runs are deterministic: repeat the identical case; one-time lazy initialisation disappears, a real
    // imbalance repeats.
    g_shm->reruns.fetch_add(1, kRlx);
    CaseResult r2 = Execute(cell, cell_id, idx, 1, false);
    if (r2.alloc_delta != 0) {
      Ctx ctx;
      ctx.cell = &cell;
      ctx.cell_id = cell_id;
      ctx.idx = idx;
      ctx.rng.s = CaseSeed(cell, idx);
      DeriveParams(ctx);
      ctx.Fail("alloc-balance", LifecycleProps(cell).c_str(), "operator new/delete imbalance at quiescence: %ld (repeat run: %ld)",
               r.alloc_delta, r2.alloc_delta);
    }
  }
#else
  (void)r;
#endif
}

////////////////////////////////////////////////////////////////////////////////////////////////////
// supervisor

struct Batch {
  int cell;
  u64 begin, end;
  int restarts = 0;
};

inline double NowS() {
  timespec ts;
  clock_gettime(CLOCK_MONOTONIC, &ts);
  return static_cast<double>(ts.tv_sec) + 1e-9 * static_cast<double>(ts.tv_nsec);
}

inline std::string ReadHead(const char* path, std::size_t max) {
  std::string s;
  int fd = open(path, O_RDONLY);
  if (fd < 0) {
    return s;
  }
  s.resize(max);
  ssize_t n = read(fd, s.data(), max);
  close(fd);
  s.resize(n > 0 ? static_cast<std::size_t>(n) : 0);
  return s;
}

// classify an abnormal child exit from its stderr
inline std::string ClassifyCrash(const std::string& err, int status) {
  auto has = [&](const char* s) {
    return err.find(s) != std::string::npos;
  };
  if (has("AddressSanitizer")) {
    static const char* kinds[] = {"heap-use-after-free", "stack-use-after-return", "stack-use-after-scope",
                                  "heap-buffer-overflow", "stack-buffer-overflow", "double-free",
                                  "alloc-dealloc-mismatch", "SEGV", "use-after-poison", "global-buffer-overflow",
                                  "attempting free", "stack-overflow"};
    for (const char* k : kinds) {
      if (has(k)) {
        std::string r = "asan-";
        for (const char* p = k; *p; ++p) {
          r.push_back(*p == ' ' ? '-' : *p);
        }
        return r;
      }
    }
    return "asan-other";
  }
  if (has("LeakSanitizer")) {
    return "lsan-leak";
  }
  if (has("runtime error:")) {
    return "ubsan";
  }
  if (has("terminate called") || has("std::terminate")) {
    return "terminate";
  }
  if (WIFSIGNALED(status)) {
    int sig = WTERMSIG(status);
    if (sig == SIGSEGV) {
      return "segv";
    }
    if (sig == SIGABRT) {
      return "abort";
    }
    if (sig == SIGBUS) {
      return "sigbus";
    }
    if (sig == SIGFPE) {
      return "sigfpe";
    }
    return "signal-" + std::to_string(sig);
  }
  return "exit-" + std::to_string(WIFEXITED(status) ? WEXITSTATUS(status) : -1);
}

inline void TerminateHandler() {
  const char m[] = "terminate called (vf handler)\n";
  (void)!write(2, m, sizeof m - 1);
  if (auto e = std::current_exception()) {
    try {
      std::rethrow_exception(e);
    } catch (const std::exception& ex) {
      (void)!write(2, ex.what(), std::strlen(ex.what()));
      (void)!write(2, "\n", 1);
    } catch (...) {
    }
  }
  _exit(97);
}

inline void ChildBatch(const Batch& b, int slot, const char* errpath) {
  g_child = true;
  g_slot = slot;
  int fd = open(errpath, O_WRONLY | O_CREAT | O_TRUNC, 0644);
  if (fd >= 0) {
    dup2(fd, 2);
    close(fd);
  }
  std::set_terminate(TerminateHandler);
#if VF_TSAN
  g_errpath = errpath;
  g_err_off = 0;
#endif
  const Cell& cell = Cells()[static_cast<std::size_t>(b.cell)];
  for (u64 i = b.begin; i < b.end; ++i) {
    RunCase(cell, b.cell, i);
  }
  g_shm->w[slot].phase.store(0, kRlx);
#if VF_ASAN
  if (__lsan_do_recoverable_leak_check() != 0) {
    Ctx ctx;
    ctx.cell = &cell;
    ctx.cell_id = b.cell;
    ctx.idx = b.begin;
    ctx.Fail("lsan-leak", LifecycleProps(cell).c_str(), "LeakSanitizer reports leaked heap blocks after cases [%llu,%llu)",
             (unsigned long long)b.begin, (unsigned long long)b.end);
  }
#endif
  g_shm->w[slot].done.store(1, kRlx);
  ChildExit(0);
}

inline bool CellSelected(const Cell& c) {
  if (!HasProp(c.props, g_cfg.prop)) {
    return false;
  }
  if (g_cfg.cell_filter != nullptr && *g_cfg.cell_filter != 0) {
    // comma separated substrings; a leading '=' demands equality
    std::string f{g_cfg.cell_filter};
    std::size_t pos = 0;
    bool any = false;
    while (pos <= f.size()) {
      auto e = f.find(',', pos);
      if (e == std::string::npos) {
        e = f.size();
      }
      std::string tok = f.substr(pos, e - pos);
      if (!tok.empty()) {
        if (tok[0] == '=') {
          any = any || tok.substr(1) == c.name;
        } else {
          any = any || std::strstr(c.name, tok.c_str()) != nullptr;
        }
      }
      pos = e + 1;
    }
    return any;
  }
  return true;
}

inline void WriteSummary(FILE* out, double wall, bool complete) {
  std::string s;
  s += "{\"t\":\"summary\",\"family\":\"";
  JsonEscape(s, g_cfg.family);
  s += "\",\"mode\":\"";
  s += VF_FIBER ? "fiber" : "threads";
  s += "\",\"sanitizer\":\"";
  s += VF_ASAN ? "asan+ubsan" : (VF_TSAN ? "tsan" : "none");
  char b[256];
  std::snprintf(b, sizeof b, "\",\"seed\":%llu,\"wall_s\":%.3f,\"complete\":%s,\"inconclusive\":%llu,\"crashes\":%llu,",
                (unsigned long long)g_cfg.seed, wall, complete ? "true" : "false",
                (unsigned long long)g_shm->inconclusive.load(), (unsigned long long)g_shm->crashes.load());
  s += b;
  std::snprintf(b, sizeof b, "\"set_saturated\":%llu,\"reruns\":%llu,\"tsan_reports\":%llu,\"hb_sync_events\":%llu,\"hb_plain_accesses_checked\":%llu,\"hb_cases_given_up\":%llu,\"violations_total\":%llu,\"cells\":[",
                (unsigned long long)g_shm->set_saturated.load(), (unsigned long long)g_shm->reruns.load(),
                (unsigned long long)g_shm->tsan_reports.load(), (unsigned long long)g_shm->hb_syncs.load(),
                (unsigned long long)g_shm->hb_checks.load(), (unsigned long long)g_shm->hb_disabled.load(),
                (unsigned long long)g_shm->viol_total.load());
  s += b;
  bool first = true;
  for (std::size_t i = 0; i < Cells().size(); ++i) {
    auto& cs = g_shm->cell[i];
    if (cs.cases.load() == 0) {
      continue;
    }
    if (!first) {
      s += ",";
    }
    first = false;
    s += "{\"cell\":\"";
    JsonEscape(s, Cells()[i].name);
    s += "\",\"props\":\"";
    JsonEscape(s, Cells()[i].props);
    std::snprintf(b, sizeof b,
                  "\",\"cases\":%llu,\"nontrivial\":%llu,\"distinct\":%llu,\"distinct_nontrivial\":%llu,"
                  "\"checks\":%llu,\"switches\":%llu,\"classes\":{",
                  (unsigned long long)cs.cases.load(), (unsigned long long)cs.nontrivial.load(),
                  (unsigned long long)cs.distinct.load(), (unsigned long long)cs.distinct_nt.load(),
                  (unsigned long long)cs.events.load(), (unsigned long long)cs.switches.load());
    s += b;
    bool f2 = true;
    for (int k = 0; k < kMaxClasses; ++k) {
      if (cs.cls_state[k].load() == 2) {
        if (!f2) {
          s += ",";
        }
        f2 = false;
        s += "\"";
        JsonEscape(s, cs.cls_name[k]);
        std::snprintf(b, sizeof b, "\":%llu", (unsigned long long)cs.cls[k].load());
        s += b;
      }
    }
    s += "},\"samples\":[";
    u32 ns = cs.nsamples.load();
    if (ns > kSamplesPerCell) {
      ns = kSamplesPerCell;
    }
    for (u32 k = 0; k < ns; ++k) {
      if (k != 0) {
        s += ",";
      }
      s += "\"";
      JsonEscape(s, cs.samples[k]);
      s += "\"";
    }
    s += "]}";
  }
  s += "],\"lib_assert_sites\":{";
  first = true;
  for (int i = 0; i < kMaxSites; ++i) {
    auto& st = g_shm->sites[i];
    if (st.state.load() == 2) {
      if (!first) {
        s += ",";
      }
      first = false;
      s += "\"";
      JsonEscape(s, st.name);
      std::snprintf(b, sizeof b, "\":%llu", (unsigned long long)st.count.load());
      s += b;
    }
  }
  s += "}}\n";
  std::fputs(s.c_str(), out);
  u32 nv = g_shm->nviol.load();
  if (nv > kMaxViol) {
    nv = kMaxViol;
  }
  for (u32 i = 0; i < nv; ++i) {
    auto& r = g_shm->viol[i];
    if (r.ready.load(std::memory_order_acquire) == 0) {
      continue;
    }
    std::string v = "{\"t\":\"viol\",\"key\":\"";
    JsonEscape(v, r.key);
    v += "\",\"props\":\"";
    JsonEscape(v, r.props);
    v += "\",\"case\":\"";
    JsonEscape(v, r.desc);
    v += "\",\"detail\":\"";
    JsonEscape(v, r.detail);
    v += "\"}\n";
    std::fputs(v.c_str(), out);
  }
  std::fflush(out);
}

inline void RecordSupervisorViol(const Cell& cell, u64 idx, const char* oracle, const char* props,
                                 const std::string& detail) {
  Ctx ctx;
  ctx.cell = &cell;
  ctx.idx = idx;
  ctx.rng.s = CaseSeed(cell, idx);
  DeriveParams(ctx);
  ctx.Fail(oracle, props, "%s", detail.c_str());
}

inline int Main(int argc, char** argv, const char* family) {
  g_cfg.family = family;
  for (int i = 1; i < argc; ++i) {
    std::string a = argv[i];
    auto next = [&]() -> const char* {
      return i + 1 < argc ? argv[++i] : "";
    };
    if (a == "--prop") {
      g_cfg.prop = next();
    } else if (a == "--cells") {
      g_cfg.cell_filter = next();
    } else if (a == "--seed") {
      g_cfg.seed = std::strtoull(next(), nullptr, 10);
    } else if (a == "--cases") {
      g_cfg.cases = std::strtoull(next(), nullptr, 10);
    } else if (a == "--jobs") {
      g_cfg.jobs = std::atoi(next());
    } else if (a == "--out") {
      g_cfg.out = next();
    } else if (a == "--logdir") {
      g_cfg.logdir = next();
    } else if (a == "--budget") {
      g_cfg.budget = std::strtoull(next(), nullptr, 10);
    } else if (a == "--hang") {
      g_cfg.hang_s = std::atoi(next());
    } else if (a == "--batch") {
      g_cfg.batch = static_cast<unsigned>(std::atoi(next()));
    } else if (a == "--verbose") {
      g_cfg.verbose = true;
    } else if (a == "--one") {
      g_cfg.one = true;
      g_cfg.one_cell = next();
      g_cfg.one_idx = std::strtoull(next(), nullptr, 10);
    } else if (a == "--list") {
      for (auto& c : Cells()) {
        std::printf("%s\t%s\t%u\n", c.name, c.props, c.weight);
      }
      return 0;
    } else {
      std::fprintf(stderr, "unknown argument %s\n", a.c_str());
      return 2;
    }
  }
  if (g_cfg.jobs < 1) {
    g_cfg.jobs = 1;
  }
  if (g_cfg.jobs > kMaxWorkers) {
    g_cfg.jobs = kMaxWorkers;
  }
  if (Cells().size() > static_cast<std::size_t>(kMaxCells)) {
    std::fprintf(stderr, "too many cells\n");
    return 2;
  }
  void* mem = mmap(nullptr, sizeof(Shm), PROT_READ | PROT_WRITE, MAP_SHARED | MAP_ANONYMOUS | MAP_NORESERVE, -1, 0);
  if (mem == MAP_FAILED) {
    std::perror("mmap");
    return 2;
  }
  g_shm = static_cast<Shm*>(mem);
  YACLIB_INIT_DEBUG(LibAssert);
#if VF_FIBER
  yaclib::fiber::SetStackSize(64);
  yaclib::fiber::SetHardwareConcurrency(4);
  yaclib::fault::SetVerifResumeHook(g_raw_hook != nullptr ? g_raw_hook : &ResumeHook);
  yaclib::detail::gVerifSyncHook = &hb::OnSync;
#endif

  if (g_cfg.one) {
    g_cfg.verbose = true;
    for (std::size_t i = 0; i < Cells().size(); ++i) {
      if (std::strcmp(Cells()[i].name, g_cfg.one_cell) == 0) {
        std::set_terminate(TerminateHandler);
        RunCase(Cells()[i], static_cast<int>(i), g_cfg.one_idx);
        auto& cs = g_shm->cell[i];
        std::printf("case done: violations=%llu sample=%s\n", (unsigned long long)g_shm->viol_total.load(),
                    cs.samples[0]);
        return g_shm->viol_total.load() == 0 ? 0 : 1;
      }
    }
    std::fprintf(stderr, "no such cell %s\n", g_cfg.one_cell);
    return 2;
  }

  // work list
  std::vector<int> sel;
  u64 wsum = 0;
  for (std::size_t i = 0; i < Cells().size(); ++i) {
    if (CellSelected(Cells()[i])) {
      sel.push_back(static_cast<int>(i));
      wsum += Cells()[i].weight;
    }
  }
  FILE* out = g_cfg.out != nullptr ? std::fopen(g_cfg.out, "w") : stdout;
  if (out == nullptr) {
    std::perror("out");
    return 2;
  }
  double t0 = NowS();
  if (sel.empty()) {
    WriteSummary(out, 0, true);
    return 0;
  }
  std::vector<Batch> queue;
  for (int c : sel) {
    u64 n = g_cfg.cases * Cells()[static_cast<std::size_t>(c)].weight / (wsum == 0 ? 1 : wsum);
    if (n < 4) {
      n = 4;
    }
    u64 bs = g_cfg.batch != 0 ? g_cfg.batch : n / (2 * static_cast<u64>(g_cfg.jobs));
    if (g_cfg.batch == 0) {
      if (bs < 25) {
        bs = 25;
      }
      if (bs > 1500) {
        bs = 1500;
      }
    }
    for (u64 b = 0; b < n; b += bs) {
      queue.push_back({c, b, b + bs < n ? b + bs : n, 0});
    }
  }
  // interleave cells so that a slow cell does not serialise at the end
  {
    Rng r{g_cfg.seed ^ 0xABCDEF};
    for (std::size_t i = queue.size(); i > 1; --i) {
      std::swap(queue[i - 1], queue[r.Below(static_cast<u32>(i))]);
    }
  }

  struct Running {
    pid_t pid = 0;
    Batch b;
    double last_change = 0;
    u64 last_hb = 0;
    std::string err;
  };
  std::vector<Running> run(static_cast<std::size_t>(g_cfg.jobs));
  std::size_t qpos = 0;
  int active = 0;
  bool complete = true;
  int total_restarts = 0;
  int hangs = 0;
  bool aborted = false;
  auto spawn = [&](int slot, const Batch& b) {
    auto& r = run[static_cast<std::size_t>(slot)];
    r.b = b;
    r.err = std::string(g_cfg.logdir) + "/vf-" + family + "-" + std::to_string(getpid()) + "-" +
            std::to_string(slot) + ".err";
    g_shm->w[slot].phase.store(0, kRlx);
    g_shm->w[slot].done.store(0, kRlx);
    g_shm->w[slot].idx.store(b.begin, kRlx);
    g_shm->w[slot].cell.store(b.cell, kRlx);
    std::fflush(out);
    pid_t pid = fork();
    if (pid == 0) {
      if (out != stdout) {
        std::fclose(out);
      }
      ChildBatch(b, slot, r.err.c_str());
    }
    if (pid < 0) {
      std::perror("fork");
      std::exit(2);
    }
    r.pid = pid;
    r.last_change = NowS();
    r.last_hb = g_shm->w[slot].heartbeat.load(kRlx);
    active++;
  };
  while (qpos < queue.size() || active > 0) {
    if (!aborted && (hangs >= 3 || g_shm->viol_total.load(kRlx) >= 3000)) {
      // enough evidence of breakage: stop scheduling, the run is marked incomplete
      aborted = true;
      complete = false;
      qpos = queue.size();
      for (int s = 0; s < g_cfg.jobs; ++s) {
        if (run[static_cast<std::size_t>(s)].pid != 0) {
          kill(run[static_cast<std::size_t>(s)].pid, SIGTERM);
        }
      }
    }
    for (int s = 0; s < g_cfg.jobs && qpos < queue.size(); ++s) {
      if (run[static_cast<std::size_t>(s)].pid == 0) {
        spawn(s, queue[qpos++]);
      }
    }
    int status = 0;
    pid_t pid = waitpid(-1, &status, WNOHANG);
    if (pid <= 0) {
      usleep(1500);
      double now = NowS();
      for (int s = 0; s < g_cfg.jobs; ++s) {
        auto& r = run[static_cast<std::size_t>(s)];
        if (r.pid == 0) {
          continue;
        }
        u64 hb = g_shm->w[s].heartbeat.load(kRlx);
        if (hb != r.last_hb) {
          r.last_hb = hb;
          r.last_change = now;
        } else if (now - r.last_change > g_cfg.hang_s) {
          kill(r.pid, SIGKILL);  // reaped below as a hang
        }
      }
      continue;
    }
    int slot = -1;
    for (int s = 0; s < g_cfg.jobs; ++s) {
      if (run[static_cast<std::size_t>(s)].pid == pid) {
        slot = s;
      }
    }
    if (slot < 0) {
      continue;
    }
    auto& r = run[static_cast<std::size_t>(slot)];
    r.pid = 0;
    active--;
    if (aborted) {
      unlink(r.err.c_str());
      continue;
    }
    bool ok = WIFEXITED(status) && WEXITSTATUS(status) == 0;
    if (ok && g_shm->w[slot].done.load(kRlx) == 1) {
      unlink(r.err.c_str());
      continue;
    }
    // abnormal: attribute to the case the worker was running
    const Cell& cell = Cells()[static_cast<std::size_t>(r.b.cell)];
    u64 idx = g_shm->w[slot].idx.load(kRlx);
    int phase = g_shm->w[slot].phase.load(kRlx);
    std::string err = ReadHead(r.err.c_str(), 6000);
    int code = WIFEXITED(status) ? WEXITSTATUS(status) : -1;
    if (code == 77) {
      // violation already recorded by the child (logical deadlock); continue after it
    } else if (code == 78) {
      // resume budget: inconclusive, already counted
    } else if (WIFSIGNALED(status) && WTERMSIG(status) == SIGKILL) {
      g_shm->inconclusive.fetch_add(1, kRlx);
      hangs++;
      RecordSupervisorViol(cell, idx, "hang", "",
                           "watchdog: no progress for " + std::to_string(g_cfg.hang_s) + " s (inconclusive unless it repeats)");
    } else {
      g_shm->crashes.fetch_add(1, kRlx);
      std::string kind = ClassifyCrash(err, status);
      if (phase != 1 && kind == "lsan-leak") {
        RecordSupervisorViol(cell, r.b.begin, "lsan-leak", LifecycleProps(cell).c_str(), "leak check at batch end\n" + err.substr(0, 900));
        unlink(r.err.c_str());
        continue;  // batch itself completed
      }
      RecordSupervisorViol(cell, idx, kind.c_str(), "", err.substr(0, 1000));
    }
    unlink(r.err.c_str());
    Batch rest = r.b;
    rest.begin = idx + 1;
    rest.restarts = r.b.restarts + 1;
    total_restarts++;
    if (rest.begin < rest.end) {
      if (aborted) {
      } else if (rest.restarts <= 40 && total_restarts <= 400) {
        queue.push_back(rest);
      } else {
        complete = false;  // too many aborts in this batch: the rest is skipped and the run is marked incomplete
      }
    }
  }
  WriteSummary(out, NowS() - t0, complete);
  if (out != stdout) {
    std::fclose(out);
  }
  return 0;
}

}  // namespace vf

////////////////////////////////////////////////////////////////////////////////////////////////////
// global allocation functions (counting, malloc based)

#ifndef VF_NO_NEW_OVERRIDE
inline void* VfAlloc(std::size_t n, std::size_t al) {
  if (n == 0) {
    n = 1;
  }
  void* p = nullptr;
  if (al <= alignof(std::max_align_t)) {
    p = std::malloc(n);
  } else if (posix_memalign(&p, al, n) != 0) {
    p = nullptr;
  }
  if (p == nullptr) {
    std::abort();
  }
  vf::g_news.fetch_add(1, vf::kRlx);
  return p;
}
inline void VfFree(void* p) noexcept {
  if (p != nullptr) {
    vf::g_deletes.fetch_add(1, vf::kRlx);
    std::free(p);
  }
}
void* operator new(std::size_t n) {
  return VfAlloc(n, 1);
}
void* operator new[](std::size_t n) {
  return VfAlloc(n, 1);
}
void* operator new(std::size_t n, const std::nothrow_t&) noexcept {
  return VfAlloc(n, 1);
}
void* operator new[](std::size_t n, const std::nothrow_t&) noexcept {
  return VfAlloc(n, 1);
}
void* operator new(std::size_t n, std::align_val_t a) {
  return VfAlloc(n, static_cast<std::size_t>(a));
}
void* operator new[](std::size_t n, std::align_val_t a) {
  return VfAlloc(n, static_cast<std::size_t>(a));
}
void operator delete(void* p) noexcept {
  VfFree(p);
}
void operator delete[](void* p) noexcept {
  VfFree(p);
}
void operator delete(void* p, std::size_t) noexcept {
  VfFree(p);
}
void operator delete[](void* p, std::size_t) noexcept {
  VfFree(p);
}
void operator delete(void* p, std::align_val_t) noexcept {
  VfFree(p);
}
void operator delete[](void* p, std::align_val_t) noexcept {
  VfFree(p);
}
void operator delete(void* p, std::size_t, std::align_val_t) noexcept {
  VfFree(p);
}
void operator delete[](void* p, std::size_t, std::align_val_t) noexcept {
  VfFree(p);
}
void operator delete(void* p, const std::nothrow_t&) noexcept {
  VfFree(p);
}
void operator delete[](void* p, const std::nothrow_t&) noexcept {
  VfFree(p);
}
#endif

// sanitizer defaults baked into the binaries (environment may still override)
#if VF_ASAN
extern "C" const char* __asan_default_options() {
  return "detect_stack_use_after_return=1:exitcode=99:abort_on_error=0:detect_leaks=1:allocator_may_return_null=1:"
         "quarantine_size_mb=16:malloc_context_size=12:print_summary=1";
}
extern "C" const char* __ubsan_default_options() {
  return "print_stacktrace=1:halt_on_error=1";
}
extern "C" const char* __lsan_default_options() {
  // NB: exitcode is a flag common to all sanitizers of the process; setting it here would also change the exit code
  // of AddressSanitizer errors
  return "print_suppressions=0";
}
#endif
#if VF_TSAN
extern "C" const char* __tsan_default_options() {
  return "halt_on_error=0:exitcode=0:report_signal_unsafe=0:second_deadlock_stack=1:history_size=4";
}
// libstdc++.so is not instrumented: the atomic reference count inside std::exception_ptr is invisible to TSan, so the
// final release (free of the exception object) looks unordered with earlier readers.  Not a library property.
extern "C" const char* __tsan_default_suppressions() {
  return "race:std::__exception_ptr::exception_ptr::_M_release\n"
         "race:std::__exception_ptr::exception_ptr::_M_addref\n"
         "race:std::rethrow_exception\n";
}
extern "C" void __tsan_on_report(void*) {
  vf::g_tsan_count.fetch_add(1, vf::kRlx);
}
#endif
