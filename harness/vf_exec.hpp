// vf_exec.hpp — instrumented executors and jobs shared by the scenario families.
#pragma once

#include "vf.hpp"

#include <yaclib/exe/executor.hpp>
#include <yaclib/exe/inline.hpp>
#include <yaclib/exe/job.hpp>
#include <yaclib/exe/manual.hpp>
#include <yaclib/exe/strand.hpp>
#include <yaclib/runtime/fair_thread_pool.hpp>

namespace vf {

////////////////////////////////////////////////////////////////////////////////////////////////////
// "which executor am I running inside": one slot per fiber (fiber mode) or per thread (thread mode)

#if VF_FIBER
struct TagSlots {
  u64 id[128];
  int tag[128];
};
inline TagSlots g_tags;
inline void ResetTags() noexcept {
  for (auto& x : g_tags.id) {
    x = 0;
  }
}
inline int& CurTag() noexcept {
  u64 me = yaclib::fault::Scheduler::GetId() + 2;  // never 0
  for (u64 k = 0; k < 128; ++k) {
    u64 i = (me + k) & 127;
    if (g_tags.id[i] == me) {
      return g_tags.tag[i];
    }
    if (g_tags.id[i] == 0) {
      g_tags.id[i] = me;
      g_tags.tag[i] = 0;
      return g_tags.tag[i];
    }
  }
  static int overflow = 0;
  return overflow;
}
#else
inline void ResetTags() noexcept {
}
inline int& CurTag() noexcept {
  static thread_local int tag = 0;
  return tag;
}
#endif

////////////////////////////////////////////////////////////////////////////////////////////////////
// TagExec: wraps an inner executor; marks the current fiber/thread with its tag while a job body runs, counts
// Submit / Call / Drop, and can start rejecting (Drop) from the k-th Submit on, or only the k-th.

class TagExec final : public yaclib::IExecutor {
 public:
  TagExec(int tag, yaclib::IExecutor& inner) noexcept : _tag{tag}, _inner{inner} {
  }

  [[nodiscard]] Type Tag() const noexcept final {
    return Type::Custom;
  }
  [[nodiscard]] bool Alive() const noexcept final {
    return _inner.Alive();
  }

  void Submit(yaclib::Job& job) noexcept final {
    long k = submits.fetch_add(1, kRlx);
    bool reject = (reject_from >= 0 && k >= reject_from) || (reject_only >= 0 && k == reject_only);
    if (reject) {
      rejected.fetch_add(1, kRlx);
      job.Drop();
      return;
    }
    auto* proxy = new Proxy{*this, job};
    _inner.Submit(*proxy);
  }

  std::atomic<long> submits{0};
  std::atomic<long> calls{0};
  std::atomic<long> drops{0};
  std::atomic<long> rejected{0};
  long reject_from = -1;
  long reject_only = -1;

  [[nodiscard]] int tag() const noexcept {
    return _tag;
  }

 private:
  struct Proxy final : yaclib::Job {
    Proxy(TagExec& e, yaclib::Job& j) noexcept : ex{e}, inner{j} {
    }
    void Call() noexcept final {
      int& slot = CurTag();
      int prev = slot;
      slot = ex._tag;
      ex.calls.fetch_add(1, kRlx);
      auto& j = inner;
      auto& e = ex;
      delete this;
      j.Call();
      // the fiber may have been switched, but the slot belongs to this fiber
      CurTag() = prev;
      (void)e;
    }
    void Drop() noexcept final {
      ex.drops.fetch_add(1, kRlx);
      auto& j = inner;
      delete this;
      j.Drop();
    }
    TagExec& ex;
    yaclib::Job& inner;
  };

  int _tag;
  yaclib::IExecutor& _inner;
};

////////////////////////////////////////////////////////////////////////////////////////////////////
// CountJob: a user job with exactly-once accounting

struct JobLog {
  std::atomic<long> calls{0};
  std::atomic<long> drops{0};
};

}  // namespace vf
