// vf_hb.hpp — happens-before monitor for the fiber engines.
//
// In the fiber backend every yaclib_std atomic operation, fence, mutex acquire/release and thread start/exit/join is
// reported by the YACLIB_VERIF sync hook together with its std::memory_order.  This monitor keeps a vector clock per
// fiber and a release clock per synchronization object exactly as the C++ memory model defines synchronizes-with
// (release sequences, acquire/release fences, mutexes, thread creation and join) and checks every *annotated* plain
// access of the harness (VF_W / VF_R: the words a producer writes before publishing and an observer reads after
// observing) for a data race: two conflicting accesses not ordered by happens-before.
//
// The fiber execution itself is sequentially consistent, so a missing acquire/release never produces a wrong value
// here; the monitor is what makes "visible under the C++ memory model" (C04 and the visibility clauses of C01, C06,
// C07, C14) decidable on the explored fiber schedules, including the rare paths real-thread TSan runs seldom reach.
//
// Soundness (no false alarms): wherever the standard leaves a choice the monitor assumes MORE happens-before, never
// less: a relaxed store by the thread that made the last release store keeps the release clock (C++11 release
// sequence rule), seq_cst is treated as acq_rel (the SC total order adds no happens-before), consume = acquire, stale
// release clocks of reused addresses are kept.  Overflow of any table switches the monitor off for the case.
#pragma once

#include <cstdint>
#include <cstdio>
#include <cstring>

namespace vf::hb {

using u32 = std::uint32_t;
using u64 = std::uint64_t;

constexpr int kMaxF = 32;      // fibers per case
constexpr int kObjs = 2048;    // synchronization objects per case (open addressing)
constexpr int kVars = 256;     // annotated plain words per case
constexpr int kTrace = 24;     // recent sync events kept for the witness

struct VC {
  u32 c[kMaxF];
  void Join(const VC& o) noexcept {
    for (int i = 0; i < kMaxF; ++i) {
      if (o.c[i] > c[i]) {
        c[i] = o.c[i];
      }
    }
  }
};

struct Fiber {
  u64 id = 0;
  VC clk;
  VC acq_pending;  // release clocks read by relaxed loads, claimed by a later acquire fence
  VC rel_fence;    // clock at the last release fence, published by later relaxed stores / RMWs
  bool has_rel_fence = false;
  bool exited = false;
};

struct Obj {
  const volatile void* addr = nullptr;
  VC rel;
  int owner = -1;  // fiber index of the last release store (its later relaxed stores continue the release sequence)
};

struct Var {
  const void* addr = nullptr;
  int w_fiber = -1;
  u32 w_clock = 0;
  u32 r_clock[kMaxF];
  const char* label = nullptr;
};

struct Ev {
  int kind, order, fiber;
  const volatile void* obj;
};

struct Race {
  bool found = false;
  char text[900];
  char label[64];
  char props[32];
};

struct State {
  bool on = false;        // monitor installed (fiber build)
  bool disabled = false;  // table overflow in this case
  int nf = 0;
  Fiber f[kMaxF];
  Obj objs[kObjs];
  int nobjs = 0;
  Var vars[kVars];
  int nvars = 0;
  Ev trace[kTrace];
  u64 ntrace = 0;
  u64 syncs = 0, checks = 0;
  Race race;
};

inline State g;

// supplied by vf.hpp: id of the running fiber, 0 outside fibers
u64 CurrentFiberId() noexcept;

inline void Reset() noexcept {
  g.disabled = false;
  g.nf = 0;
  if (g.nobjs != 0) {
    for (auto& o : g.objs) {
      o.addr = nullptr;
    }
    g.nobjs = 0;
  }
  g.nvars = 0;
  g.ntrace = 0;
  g.race.found = false;
}

inline int FiberIndex(u64 id, bool create = true) noexcept {
  for (int i = 0; i < g.nf; ++i) {
    if (g.f[i].id == id) {
      return i;
    }
  }
  if (!create) {
    return -1;
  }
  if (g.nf >= kMaxF) {
    g.disabled = true;
    return -1;
  }
  int i = g.nf++;
  Fiber& f = g.f[i];
  f.id = id;
  std::memset(&f.clk, 0, sizeof f.clk);
  std::memset(&f.acq_pending, 0, sizeof f.acq_pending);
  std::memset(&f.rel_fence, 0, sizeof f.rel_fence);
  f.has_rel_fence = false;
  f.exited = false;
  f.clk.c[i] = 1;
  return i;
}

inline Obj* FindObj(const volatile void* addr) noexcept {
  auto h = reinterpret_cast<std::uintptr_t>(addr);
  h = (h >> 3) * 0x9E3779B97F4A7C15ull;
  std::size_t pos = (h >> 40) % kObjs;
  for (int probe = 0; probe < kObjs; ++probe) {
    Obj& o = g.objs[pos];
    if (o.addr == addr) {
      return &o;
    }
    if (o.addr == nullptr) {
      if (g.nobjs >= kObjs * 3 / 4) {
        g.disabled = true;
        return nullptr;
      }
      o.addr = addr;
      std::memset(&o.rel, 0, sizeof o.rel);
      o.owner = -1;
      ++g.nobjs;
      return &o;
    }
    pos = (pos + 1) % kObjs;
  }
  g.disabled = true;
  return nullptr;
}

// std::memory_order values: relaxed 0, consume 1, acquire 2, release 3, acq_rel 4, seq_cst 5
inline bool IsAcquire(int order) noexcept {
  return order == 1 || order == 2 || order == 4 || order == 5;
}
inline bool IsRelease(int order) noexcept {
  return order == 3 || order == 4 || order == 5;
}

inline void OnSync(int kind, const volatile void* obj, int order, unsigned long long arg) noexcept {
  if (!g.on || g.disabled) {
    return;
  }
  ++g.syncs;
  u64 id = CurrentFiberId();
  int fi = FiberIndex(id);
  if (fi < 0) {
    return;
  }
  Fiber& f = g.f[fi];
  g.trace[g.ntrace++ % kTrace] = {kind, order, fi, obj};
  switch (kind) {
    case 0:    // load
    case 3: {  // failed compare_exchange that was given only its success order: acq_rel -> acquire, release -> relaxed
      Obj* o = FindObj(obj);
      if (o == nullptr) {
        return;
      }
      bool acq = kind == 0 ? (order == 1 || order == 2 || order == 5 || order == 4) : (order == 1 || order == 2 || order == 4 || order == 5);
      if (acq) {
        f.clk.Join(o->rel);
      } else {
        f.acq_pending.Join(o->rel);
      }
    } break;
    case 1: {  // store
      Obj* o = FindObj(obj);
      if (o == nullptr) {
        return;
      }
      if (IsRelease(order)) {
        o->rel = f.clk;
        o->owner = fi;
        f.clk.c[fi]++;
      } else {
        if (o->owner != fi) {
          // a plain store by another thread ends every release sequence on this object
          std::memset(&o->rel, 0, sizeof o->rel);
          o->owner = -1;
        }
        if (f.has_rel_fence) {
          o->rel.Join(f.rel_fence);
          o->owner = fi;
        }
      }
    } break;
    case 2: {  // read-modify-write: continues every release sequence, may add its own release and may acquire
      Obj* o = FindObj(obj);
      if (o == nullptr) {
        return;
      }
      if (IsAcquire(order)) {
        f.clk.Join(o->rel);
      } else {
        f.acq_pending.Join(o->rel);
      }
      if (IsRelease(order)) {
        o->rel.Join(f.clk);
        f.clk.c[fi]++;
      } else if (f.has_rel_fence) {
        o->rel.Join(f.rel_fence);
      }
    } break;
    case 4:  // fence
      if (IsAcquire(order)) {
        f.clk.Join(f.acq_pending);
      }
      if (IsRelease(order)) {
        f.rel_fence = f.clk;
        f.has_rel_fence = true;
        f.clk.c[fi]++;
      }
      break;
    case 5: {  // mutex acquired
      Obj* o = FindObj(obj);
      if (o != nullptr) {
        f.clk.Join(o->rel);
      }
    } break;
    case 6: {  // mutex about to be released
      Obj* o = FindObj(obj);
      if (o != nullptr) {
        o->rel = f.clk;
        f.clk.c[fi]++;
      }
    } break;
    case 7: {  // thread started: the child begins with everything the parent did so far
      int ci = FiberIndex(arg);
      if (ci < 0) {
        return;
      }
      Fiber& c = g.f[ci];
      Fiber& p = g.f[fi];  // FiberIndex may not move entries, only append
      u32 own = c.clk.c[ci];
      c.clk = p.clk;
      c.clk.c[ci] = own;
      p.clk.c[fi]++;
    } break;
    case 8:  // thread function finished
      f.exited = true;
      break;
    case 9: {  // joined: everything the joined thread did happens-before the return of join
      int ji = FiberIndex(arg, false);
      if (ji >= 0) {
        f.clk.Join(g.f[ji].clk);
      }
    } break;
    default:
      break;
  }
}

inline Var* FindVar(const void* addr, const char* label) noexcept {
  for (int i = 0; i < g.nvars; ++i) {
    if (g.vars[i].addr == addr) {
      return &g.vars[i];
    }
  }
  if (g.nvars >= kVars) {
    g.disabled = true;
    return nullptr;
  }
  Var& v = g.vars[g.nvars++];
  v.addr = addr;
  v.w_fiber = -1;
  v.w_clock = 0;
  std::memset(v.r_clock, 0, sizeof v.r_clock);
  v.label = label;
  return &v;
}

// a new object begins / an object ended at this address: drop its shadow (a later object at the same address is a
// different variable; allocator-internal ordering is invisible to the monitor)
inline void Forget(const void* addr) noexcept {
  if (!g.on || g.disabled) {
    return;
  }
  for (int i = 0; i < g.nvars; ++i) {
    if (g.vars[i].addr == addr) {
      g.vars[i] = g.vars[g.nvars - 1];
      --g.nvars;
      return;
    }
  }
}

inline const char* KindName(int k) noexcept {
  static const char* const n[] = {"load", "store", "rmw", "cas-fail", "fence", "lock", "unlock", "thread-start", "thread-exit", "join"};
  return k >= 0 && k < 10 ? n[k] : "?";
}
inline const char* OrderName(int o) noexcept {
  static const char* const n[] = {"relaxed", "consume", "acquire", "release", "acq_rel", "seq_cst"};
  return o >= 0 && o < 6 ? n[o] : "?";
}

inline void Report(const Var& v, const char* what, int prev_fiber, u32 prev_clock, int cur, const char* label, const char* props) noexcept {
  if (g.race.found) {
    return;
  }
  g.race.found = true;
  std::snprintf(g.race.label, sizeof g.race.label, "%s", label);
  std::snprintf(g.race.props, sizeof g.race.props, "%s", props);
  int n = std::snprintf(g.race.text, sizeof g.race.text,
                        "%s of plain word '%s' by fiber #%d is not ordered after the %s by fiber #%d (its epoch %u, known to "
                        "the accessing fiber only up to %u) under the C++ memory model; last synchronization events: ",
                        what, v.label != nullptr ? v.label : label, cur, what[0] == 'r' ? "write" : "earlier access", prev_fiber,
                        prev_clock, g.f[cur].clk.c[prev_fiber]);
  u64 from = g.ntrace > 14 ? g.ntrace - 14 : 0;
  for (u64 i = from; i < g.ntrace && n > 0 && n < static_cast<int>(sizeof g.race.text) - 60; ++i) {
    const Ev& e = g.trace[i % kTrace];
    n += std::snprintf(g.race.text + n, sizeof g.race.text - static_cast<std::size_t>(n), "[#%d %s%s%s @%lx] ", e.fiber,
                       KindName(e.kind), e.kind <= 4 ? " " : "", e.kind <= 4 ? OrderName(e.order) : "",
                       static_cast<unsigned long>(reinterpret_cast<std::uintptr_t>(e.obj) & 0xffffff));
  }
}

inline void Write(const void* addr, const char* label, const char* props) noexcept {
  if (!g.on || g.disabled) {
    return;
  }
  u64 id = CurrentFiberId();
  if (id == 0) {
    return;
  }
  int fi = FiberIndex(id);
  Var* v = fi < 0 ? nullptr : FindVar(addr, label);
  if (v == nullptr) {
    return;
  }
  ++g.checks;
  Fiber& f = g.f[fi];
  if (v->w_fiber >= 0 && v->w_fiber != fi && v->w_clock > f.clk.c[v->w_fiber]) {
    Report(*v, "write", v->w_fiber, v->w_clock, fi, label, props);
  }
  for (int i = 0; i < g.nf; ++i) {
    if (i != fi && v->r_clock[i] > f.clk.c[i]) {
      Report(*v, "write", i, v->r_clock[i], fi, label, props);
    }
  }
  v->w_fiber = fi;
  v->w_clock = f.clk.c[fi];
  std::memset(v->r_clock, 0, sizeof v->r_clock);
}

inline void Read(const void* addr, const char* label, const char* props) noexcept {
  if (!g.on || g.disabled) {
    return;
  }
  u64 id = CurrentFiberId();
  if (id == 0) {
    return;
  }
  int fi = FiberIndex(id);
  Var* v = fi < 0 ? nullptr : FindVar(addr, label);
  if (v == nullptr) {
    return;
  }
  ++g.checks;
  Fiber& f = g.f[fi];
  if (v->w_fiber >= 0 && v->w_fiber != fi && v->w_clock > f.clk.c[v->w_fiber]) {
    Report(*v, "read", v->w_fiber, v->w_clock, fi, label, props);
  }
  v->r_clock[fi] = f.clk.c[fi];
}

}  // namespace vf::hb
