"""pipegen: generator of pipeline programs, reference interpreter and checker (engine E3).

A program = source + steps (+ start/tail).  `emit()` writes the C++ of a program against pg_rt.hpp, `interpret()` is the
sequential reference semantics (the "obvious sequential reading" of C02, the executor placement / rejection rules of
C05, laziness of C12, step counting for C20), `check_run()` compares one run record printed by pg_main with the
interpreter's prediction."""
import random

ST_VAL, ST_EXC, ST_ERR = 0, 1, 2
STOP = (ST_ERR, -1)

EXEC_NAME = {1: "pg::E1", 2: "pg::E2", 3: "pg::I3", 4: "pg::S4"}


class Step:
    def __init__(self, sid, attach, etag, sig, ret, in_vt, out_vt):
        self.id, self.attach, self.etag, self.sig, self.ret, self.in_vt, self.out_vt = sid, attach, etag, sig, ret, in_vt, out_vt

    def desc(self):
        return "%s%s/%s->%s" % (self.attach, "" if self.etag is None else "@%d" % self.etag, self.sig, self.ret["kind"])


class Prog:
    def __init__(self, pid):
        self.id = pid
        self.lazy = False
        self.source = None
        self.steps = []
        self.start = "tofuture"   # lazy only
        self.tail = "get"         # eager: get | detach
        self.twin_of = None
        self.coro = False

    def desc(self):
        s = "%s src=%s(%s)" % ("lazy" if self.lazy else "eager", self.source["kind"], self.source.get("vt"))
        if self.source.get("connect"):
            s += " head-connects-to-%s-future" % self.source["connect"]
        sib = self.source.get("sib")
        if sib:
            s += " sibling=%s:%s%s/%s" % (sib["kind"], sib["attach"], "" if sib["etag"] is None else "@%d" % sib["etag"], sib["when"])
        s += " steps=[" + ", ".join(x.desc() for x in self.steps) + "]"
        s += " start=%s" % self.start if self.lazy else " tail=%s" % self.tail
        return s

    def shared_involved(self):
        return self.source["kind"] in ("shared", "shared_on") or any(st.ret["kind"].startswith("shared") for st in self.steps)

    def klass(self, step_id=None):
        """cell class for violation keys: mode / source kind / the step concerned (signature, return kind)"""
        base = "%s/src=%s" % ("lazy" if self.lazy else "eager", self.source["kind"])
        if self.lazy:
            base += "/start=%s" % self.start
        for st in self.steps:
            if step_id is not None and (st.id == step_id or step_id // 10 == 10 + st.id):
                return base + "/step=%s,%s,ret=%s" % (st.attach, st.sig, st.ret["kind"])
        return base


# ---------------------------------------------------------------------------------------------------------------------
# C++ emission

def vt_cpp(vt):
    return "pg::Tracked" if vt == "T" else "void"


def res_cpp(vt):
    return "pg::RT" if vt == "T" else "pg::RV"


def res_expr(vt, st, code):
    r = res_cpp(vt)
    if st == ST_VAL:
        return "%s{pg::Tracked{%d}}" % (r, code) if vt == "T" else "%s{std::in_place}" % r
    if st == ST_ERR:
        return "%s{pg::MyError{%d}}" % (r, code)
    return "%s{std::make_exception_ptr(pg::MyException{%d})}" % (r, code)


def sig_arg(sig, vt):
    if sig == "R":
        return "%s&& r" % res_cpp(vt), "pg::D(r)"
    if sig == "Rc":
        return "const %s& r" % res_cpp(vt), "pg::D(r)"
    if sig == "Rv":
        return "%s r" % res_cpp(vt), "pg::D(r)"
    if sig == "V":
        return "pg::Tracked v", "pg::D(v)"
    if sig == "Vc":
        return "const pg::Tracked& v", "pg::D(v)"
    if sig == "Vr":
        return "pg::Tracked&& v", "pg::D(v)"
    if sig == "N":
        return "", "pg::D()"
    if sig == "E":
        return "pg::MyError e", "pg::D(e)"
    if sig == "X":
        return "std::exception_ptr e", "pg::D(e)"
    raise ValueError(sig)


def inner_fn(iid, vt, code):
    if vt == "T":
        return "[cap%d = pg::Cap(%d)] { pg::Enter(%d, {-1, 0}); return pg::Tracked{%d}; }" % (iid, iid, iid, code)
    return "[cap%d = pg::Cap(%d)] { pg::Enter(%d, {-1, 0}); }" % (iid, iid, iid)


def ret_code(ret, vt):
    """returns (return type, body statement)"""
    k = ret["kind"]
    T = vt_cpp(vt)
    if k == "val":
        return "pg::Tracked", "return pg::Tracked{%d};" % ret["code"]
    if k == "void":
        return "void", ""
    if k == "res":
        return res_cpp(vt), "return %s;" % res_expr(vt, ret["st"], ret["code"])
    if k == "throw":
        return T, "throw pg::MyException{%d};" % ret["code"]
    fut = "yaclib::Future<%s, pg::MyError>" % T
    if k == "fut_ready":
        return fut, "return pg::Ready%s(%d, %d);" % ("T" if vt == "T" else "V", ret["st"], ret["code"])
    if k == "fut_pending":
        return fut, "return pg::Pending%s(%d, %d);" % ("T" if vt == "T" else "V", ret["st"], ret["code"])
    if k == "fut_run":
        return ("yaclib::FutureOn<%s, pg::MyError>" % T,
                "return yaclib::Run<pg::MyError>(%s, %s);" % (EXEC_NAME[ret["etag"]], inner_fn(ret["iid"], vt, ret["code"])))
    if k == "shared_ready":
        return "yaclib::SharedFuture<pg::Tracked, pg::MyError>", "return pg::ReadyST(%d, %d);" % (ret["st"], ret["code"])
    if k == "shared_pending":
        return "yaclib::SharedFuture<pg::Tracked, pg::MyError>", "return pg::PendingST(%d, %d);" % (ret["st"], ret["code"])
    if k == "shared_slot":
        return ("yaclib::SharedFuture<pg::Tracked, pg::MyError>",
                "return pg::SharedSlot(%d, %d, %d, %d);" % (ret["slot"], ret["pending"], ret["st"], ret["code"]))
    task = "yaclib::Task<%s, pg::MyError>" % T
    lazy_step = ""
    if ret.get("hid") is not None:
        lazy_step = (".ThenInline([cap%d = pg::Cap(%d)](pg::Tracked v) { pg::Enter(%d, pg::D(v)); return pg::Tracked{%d}; })"
                     % (ret["hid"], ret["hid"], ret["hid"], ret["hcode"]))
    if k == "task_make":
        e = "yaclib::MakeTask<pg::Tracked, pg::MyError>(pg::Tracked{%d})" % ret["code"] if vt == "T" else "yaclib::MakeTask<void, pg::MyError>()"
        return task, "return %s%s;" % (e, lazy_step)
    if k == "task_sched_e":
        return task, "return yaclib::Schedule<pg::MyError>(%s, %s)%s;" % (EXEC_NAME[ret["etag"]], inner_fn(ret["iid"], vt, ret["code"]), lazy_step)
    if k == "task_sched":
        return task, "return yaclib::Schedule<pg::MyError>(%s)%s;" % (inner_fn(ret["iid"], vt, ret["code"]), lazy_step)
    if k == "task_lazycontract":
        return task, ("return yaclib::LazyContract<%s, pg::MyError>([](yaclib::Promise<%s, pg::MyError>&& p) { pg::Enter(%d, {-1, 0}); "
                      "pg::SetState(std::move(p), %d, %d); })%s;" % (T, T, ret["iid"], ret["st"], ret["code"], lazy_step))
    if k == "task_coro":
        return task, "return pg::CoroTask%s(%d, %d, %d)%s;" % ("T" if vt == "T" else "V", ret["iid"], ret["st"], ret["code"], lazy_step)
    raise ValueError(k)


def callback(step):
    arg, dig = sig_arg(step.sig, step.in_vt)
    rtype, body = ret_code(step.ret, step.out_vt)
    return "[cap%d = pg::Cap(%d)](%s) -> %s { pg::Enter(%d, %s); %s }" % (step.id, step.id, arg, rtype, step.id, dig, body)


def source_fn(src):
    """function body for Run/Schedule style sources"""
    vt, r = src["vt"], src["fret"]
    rtype, body = ret_code(r, vt)
    if src.get("hsig"):
        # a head functor taking Result<void, E>: it also runs (with StopError) when the head job is dropped
        return "[cap0 = pg::Cap(0)](pg::RV r) -> %s { pg::Enter(0, pg::D(r)); %s }" % (rtype, body)
    return "[cap0 = pg::Cap(0)]() -> %s { pg::Enter(0, {-1, 0}); %s }" % (rtype, body)


def contract_body(src, vt):
    """what a contract functor does with its promise: fulfil it, or connect it to another (ready / still pending) future"""
    c = src.get("connect")
    if not c:
        return "pg::SetState(std::move(p), %d, %d);" % (src["st"], src["code"])
    maker = "%s%s" % ("Pending" if c == "pending" else "Ready", "T" if vt == "T" else "V")
    return "yaclib::Connect(pg::%s(%d, %d), std::move(p));" % (maker, src["st"], src["code"])


def emit(p):
    L = []
    src = p.source
    vt = src["vt"]
    T = vt_cpp(vt)
    k = src["kind"]
    L.append("static void prog_%d() {  // %s" % (p.id, p.desc()))
    L.append("  pg::Begin();")
    if p.lazy:
        L.append("  pg::g.started = 0;")
    var = "h0"
    post = []
    if k == "ready":
        if src["st"] == ST_VAL:
            e = "yaclib::MakeFuture<pg::Tracked, pg::MyError>(pg::Tracked{%d})" % src["code"] if vt == "T" else "yaclib::MakeFuture<void, pg::MyError>()"
        elif src["st"] == ST_ERR:
            e = "yaclib::MakeFuture<%s, pg::MyError>(pg::MyError{%d})" % (T, src["code"])
        else:
            e = "yaclib::MakeFuture<%s, pg::MyError>(std::make_exception_ptr(pg::MyException{%d}))" % (T, src["code"])
        L.append("  auto h0 = %s;" % e)
    elif k in ("contract_before", "contract_after", "contract_on"):
        mk = "yaclib::MakeContractOn<%s, pg::MyError>(pg::E1)" % T if k == "contract_on" else "yaclib::MakeContract<%s, pg::MyError>()" % T
        L.append("  auto [h0, p0] = %s;" % mk)
        setp = "  pg::SetState(std::move(p0), %d, %d);" % (src["st"], src["code"])
        if k == "contract_after":
            post.append(setp)
        else:
            L.append(setp)
    elif k == "run_e":
        L.append("  auto h0 = yaclib::Run<pg::MyError>(%s, %s);" % (EXEC_NAME[src["etag"]], source_fn(src)))
    elif k == "run":
        L.append("  auto h0 = yaclib::Run<pg::MyError>(%s);" % source_fn(src))
    elif k == "async_contract":
        L.append("  auto h0 = yaclib::AsyncContract<%s, pg::MyError>(%s, [cap0 = pg::Cap(0)](yaclib::Promise<%s, pg::MyError>&& p) { pg::Enter(0, {-1, 0}); "
                 "%s });" % (T, EXEC_NAME[src["etag"]], T, contract_body(src, vt)))
    elif k == "coro":
        L.append("  auto h0 = pg::CoroFuture%s(0, %d, %d);" % ("T" if vt == "T" else "V", src["st"], src["code"]))
    elif k == "shared":
        L.append("  auto s0 = pg::%sST(%d, %d);" % ("Pending" if src["pending"] else "Ready", src["st"], src["code"]))
        var = "s0"
    elif k == "shared_on":
        L.append("  auto s0 = yaclib::RunShared<pg::MyError>(%s, %s);" % (EXEC_NAME[src["etag"]], source_fn(src)))
        var = "s0"
    elif k == "schedule_e":
        L.append("  auto h0 = yaclib::Schedule<pg::MyError>(%s, %s);" % (EXEC_NAME[src["etag"]], source_fn(src)))
    elif k == "schedule":
        L.append("  auto h0 = yaclib::Schedule<pg::MyError>(%s);" % source_fn(src))
    elif k in ("lazy_contract", "lazy_contract_e"):
        ex = "%s, " % EXEC_NAME[src["etag"]] if k == "lazy_contract_e" else ""
        L.append("  auto h0 = yaclib::LazyContract<%s, pg::MyError>(%s[cap0 = pg::Cap(0)](yaclib::Promise<%s, pg::MyError>&& p) { pg::Enter(0, {-1, 0}); "
                 "%s });" % (T, ex, T, contract_body(src, vt)))
    elif k == "make_task":
        if src["st"] == ST_VAL:
            e = "yaclib::MakeTask<pg::Tracked, pg::MyError>(pg::Tracked{%d})" % src["code"] if vt == "T" else "yaclib::MakeTask<void, pg::MyError>()"
        elif src["st"] == ST_ERR:
            e = "yaclib::MakeTask<%s, pg::MyError>(pg::MyError{%d})" % (T, src["code"])
        else:
            e = "yaclib::MakeTask<%s, pg::MyError>(std::make_exception_ptr(pg::MyException{%d}))" % (T, src["code"])
        L.append("  auto h0 = %s;" % e)
    elif k == "coro_task":
        L.append("  auto h0 = pg::CoroTask%s(0, %d, %d);" % ("T" if vt == "T" else "V", src["st"], src["code"]))
    else:
        raise ValueError(k)
    n = 0
    last = len(p.steps) - 1
    sib = src.get("sib")

    def emit_sibling():
        body = "pg::EnterSib(pg::D(r));"
        if sib["kind"] == "then":
            cbs = "[capS = pg::Cap(90)](const pg::RT& r) -> pg::Tracked { %s return pg::Tracked{4242}; }" % body
        else:
            cbs = "[capS = pg::Cap(90)](const pg::RT& r) { %s }" % body
        if sib["attach"] == "inline":
            c = "s0.%s(%s)" % ("ThenInline" if sib["kind"] == "then" else "SubscribeInline", cbs)
        elif sib["attach"] == "inherit":
            c = "s0.%s(%s)" % ("Then" if sib["kind"] == "then" else "Subscribe", cbs)
        else:
            c = "%s.%s(%s, %s)" % ("s0" if sib["kind"] == "then" else "pg::Base(s0)", "Then" if sib["kind"] == "then" else "Subscribe", EXEC_NAME[sib["etag"]], cbs)
        L.append("  %s%s;" % ("auto sib = " if sib["kind"] == "then" else "", c))

    for i, st in enumerate(p.steps):
        if i == 0 and sib and sib["when"] == "before":
            emit_sibling()
        cb = callback(st)
        mv = var if var == "s0" else "std::move(%s)" % var
        detach_tail = (not p.lazy) and p.tail == "detach" and i == last
        if st.attach == "inline":
            call = "%s.%s(%s)" % (mv, "DetachInline" if detach_tail else "ThenInline", cb)
            if var == "s0" and detach_tail:
                call = "%s.SubscribeInline(%s)" % (mv, cb)
        elif st.attach == "inherit":
            call = "%s.%s(%s)" % (mv, ("Subscribe" if var == "s0" else "Detach") if detach_tail else "Then", cb)
        else:
            call = "%s.%s(%s, %s)" % ("pg::Base(s0)" if var == "s0" and detach_tail else mv, ("Subscribe" if var == "s0" else "Detach") if detach_tail else "Then", EXEC_NAME[st.etag], cb)
        n += 1
        if detach_tail:
            L.append("  %s;" % call)
            var = None
        else:
            L.append("  auto h%d = %s;" % (n, call))
            var = "h%d" % n
        if i == 0 and sib and sib["when"] == "after":
            emit_sibling()
    L.extend(post)
    if p.lazy:
        L.append("  pg::g.started = 1;")
        if p.start == "tofuture":
            L.append("  pg::FinishFuture(std::move(%s).ToFuture());" % var)
        elif p.start == "tofuture_e":
            L.append("  pg::FinishFuture(std::move(%s).ToFuture(pg::E2));" % var)
        elif p.start == "get":
            # Get blocks; everything must be able to run inline or on immediate executors (the generator guarantees it)
            L.append("  { auto r = std::move(%s).Get(); pg::Dig d = pg::D(r); pg::gout.final_state = d.state; pg::gout.final_code = d.code; "
                     "pg::gout.ready = 1; pg::Quiesce(); pg::gout.allocs = pg::gc.news - pg::alloc_mark; pg::CheckSharedSlots(); pg::gout.finished = 1; }" % var)
        elif p.start == "detach":
            L.append("  std::move(%s).Detach();" % var)
            L.append("  pg::FinishDetached();")
        elif p.start == "detach_e":
            L.append("  std::move(%s).Detach(pg::E2);" % var)
            L.append("  pg::FinishDetached();")
        elif p.start == "drop":
            L.append("  { auto dead = std::move(%s); }" % var)
            L.append("  pg::FinishDetached();")
    else:
        if var is None:
            L.append("  pg::FinishDetached();")
        elif var == "s0":
            L.append("  pg::Quiesce(); { const pg::RT& r = std::as_const(s0).Get(); pg::Dig d = pg::D(r); pg::gout.final_state = d.state; "
                     "pg::gout.final_code = d.code; pg::gout.ready = 1; pg::gout.allocs = pg::gc.news - pg::alloc_mark; pg::CheckSharedSlots(); pg::gout.finished = 1; }")
        else:
            L.append("  pg::FinishFuture(std::move(%s));" % var)
    if sib and sib["kind"] == "then":
        L.append("  pg::SibFinal(std::move(sib));")
    L.append("}")
    L.append("static pg::Reg reg_%d{%d, &prog_%d, %d};" % (p.id, p.id, p.id, 1 if sib else 0))
    return "\n".join(L)


# ---------------------------------------------------------------------------------------------------------------------
# reference interpreter

class Expect:
    def __init__(self):
        self.log = []        # (step id, tag or None, digest state, digest code)
        self.final = None    # (state, code) or None when nothing to read
        self.submits = 0
        self.rejected = 0
        self.steps = 0       # allocation budget (C20)
        self.sib = None      # expectation for the sibling consumer of a shared source


def interpret(p, mode="base", k=-1):
    ex = Expect()
    seq = [0]

    def submit(tag):
        """returns True if accepted"""
        n = seq[0]
        seq[0] += 1
        ex.submits += 1
        rej = tag == 4 or (mode == "from" and n >= k) or (mode == "only" and n == k)
        if rej:
            ex.rejected += 1
        return not rej

    src = p.source
    kind = src["kind"]
    vt = src["vt"]
    inherited = None      # executor tag the next "inherit" step would use (None: real inline)
    state = None
    ex.steps = 1

    def run_fret(fret, vt_):
        kk = fret["kind"]
        if kk == "val":
            return (ST_VAL, fret["code"])
        if kk == "void":
            return (ST_VAL, 0)
        if kk == "res":
            return (fret["st"], fret["code"] if fret["st"] != ST_VAL or vt_ == "T" else 0)
        if kk == "throw":
            return (ST_EXC, fret["code"])
        raise ValueError(kk)

    head_exec = None
    if kind in ("ready", "contract_before", "contract_after", "make_task", "coro", "coro_task", "shared"):
        state = (src["st"], src["code"] if (src["st"] != ST_VAL or vt == "T") else 0)
    if kind == "contract_on":
        state = (src["st"], src["code"] if (src["st"] != ST_VAL or vt == "T") else 0)
        inherited = 1
    if kind in ("run_e", "schedule_e", "async_contract", "lazy_contract_e", "shared_on"):
        head_exec = src["etag"]
        inherited = src["etag"]
    start_exec = None
    dropped = False
    if p.lazy:
        if p.start in ("tofuture_e", "detach_e"):
            start_exec = 2
        if p.start == "drop":
            dropped = True
            inherited = "dead"
    # ---- head
    if kind in ("coro", "coro_task"):
        # coroutine body: an eager one runs at creation, a lazy one when started (possibly on start_exec)
        accepted = True
        if p.lazy and dropped:
            accepted = False
        elif p.lazy and start_exec is not None:
            accepted = submit(start_exec)
            inherited = start_exec
        if accepted:
            ex.log.append((0, start_exec if p.lazy else None, -1, 0))
        else:
            state = STOP
    elif kind in ("run_e", "run", "schedule_e", "schedule", "async_contract", "lazy_contract", "lazy_contract_e", "shared_on"):
        etag = head_exec
        if p.lazy and start_exec is not None:
            etag = start_exec
            inherited = start_exec
        accepted = True
        if p.lazy and dropped:
            accepted = False
        elif etag is not None:
            accepted = submit(etag)
        if accepted:
            ex.log.append((0, etag, 0, 0) if src.get("hsig") else (0, etag, -1, 0))
            if kind in ("async_contract", "lazy_contract", "lazy_contract_e"):
                state = (src["st"], src["code"] if (src["st"] != ST_VAL or vt == "T") else 0)
                if src.get("connect"):
                    ex.steps += 1  # the contract the functor connects its promise to
            else:
                state = run_fret(src["fret"], vt)
        elif src.get("hsig"):
            # dropped head whose functor takes a Result: it is called with StopError, wherever the drop happens
            ex.log.append((0, None, ST_ERR, -1))
            state = run_fret(src["fret"], vt)
        else:
            state = STOP
    elif kind == "make_task":
        if dropped:
            state = STOP
        elif start_exec is not None:
            inherited = start_exec
            if not submit(start_exec):
                state = STOP
    cur_vt = vt
    slots_made = set()
    sib = src.get("sib")

    def do_sibling():
        # another consumer of the same shared source: always invoked exactly once (const Result& callback), with the
        # source's result, or with StopError when its own submission is refused.  Sibling programs are only run without
        # rejection and with everything rejected, so its position in the submission sequence does not matter.
        ex.steps += 1
        tag = None
        dig = src_state
        if sib["attach"] != "inline":
            tag = sib["etag"] if sib["attach"] in ("exec", "stopped") else src_inherited
            if not submit(tag):
                dig = STOP
                tag = None
        ex.sib = {"dig": dig, "tag": tag, "final": (ST_VAL, 4242) if sib["kind"] == "then" else None}

    src_state, src_inherited = state, inherited
    if sib:
        do_sibling()
    for st in p.steps:
        ex.steps += 1
        tag = None
        if st.attach == "exec" or st.attach == "stopped":
            tag = st.etag
        elif st.attach == "inherit":
            tag = inherited
        if st.attach in ("exec", "stopped"):
            inherited = st.etag
        if st.attach != "inline" and tag is not None:
            if tag == "dead":
                # inherited the stopped Inline executor a cancelled Task was "started" on: dropped, not one of ours
                state = STOP
                tag = None
            elif not submit(tag):
                state = STOP
                tag = None   # a rejected step is finished by Drop() inside Submit, in the submitter's context
        # dispatch
        s0, c0 = state
        invoked = False
        if st.sig in ("R", "Rc", "Rv"):
            invoked = True
            dig = (s0, c0)
        elif st.sig in ("V", "Vc", "Vr", "N"):
            invoked = s0 == ST_VAL
            dig = (0, c0)
        elif st.sig == "E":
            invoked = s0 == ST_ERR
            dig = (2, c0)
        elif st.sig == "X":
            invoked = s0 == ST_EXC
            dig = (1, c0)
        if not invoked:
            cur_vt = st.out_vt
            continue   # failure (or, for recovery callbacks, the whole Result) passes through
        ex.log.append((st.id, tag, dig[0], dig[1]))
        r = st.ret
        kk = r["kind"]
        ovt = st.out_vt
        if kk in ("val", "void", "res", "throw"):
            state = run_fret(r, ovt)
        elif kk in ("fut_ready", "fut_pending", "shared_ready", "shared_pending"):
            ex.steps += 1
            state = (r["st"], r["code"] if (r["st"] != ST_VAL or ovt == "T") else 0)
        elif kk == "shared_slot":
            if r["slot"] not in slots_made:
                slots_made.add(r["slot"])
                ex.steps += 1
            state = (r["st"], r["code"])
        elif kk == "fut_run":
            ex.steps += 1
            if submit(r["etag"]):
                ex.log.append((r["iid"], r["etag"], -1, 0))
                state = (ST_VAL, r["code"] if ovt == "T" else 0)
            else:
                state = STOP
        else:
            # inner task
            ex.steps += 1
            if r.get("hid") is not None:
                ex.steps += 1
            if kk == "task_make":
                state = (ST_VAL, r["code"] if ovt == "T" else 0)
            elif kk == "task_sched_e":
                if submit(r["etag"]):
                    ex.log.append((r["iid"], r["etag"], -1, 0))
                    state = (ST_VAL, r["code"] if ovt == "T" else 0)
                else:
                    state = STOP
            elif kk == "task_sched":
                ex.log.append((r["iid"], None, -1, 0))
                state = (ST_VAL, r["code"] if ovt == "T" else 0)
            elif kk in ("task_lazycontract", "task_coro"):
                ex.log.append((r["iid"], None, -1, 0))
                state = (r["st"], r["code"] if (r["st"] != ST_VAL or ovt == "T") else 0)
            if r.get("hid") is not None and state[0] == ST_VAL:
                ex.log.append((r["hid"], None, 0, state[1]))
                state = (ST_VAL, r["hcode"])
        cur_vt = ovt
    detached = (p.lazy and p.start in ("detach", "detach_e", "drop")) or ((not p.lazy) and p.tail == "detach")
    ex.final = None if detached else state
    return ex


def check_run(p, rec):
    """compare one run record with the interpreter; returns list of (oracle, props, message)"""
    out = []
    ex = interpret(p, rec["mode"], rec["k"])
    if not rec.get("finished"):
        out.append(("did-not-finish", "C02,C12", "program did not reach its end"))
        return out, ex
    got_ids = [e[0] for e in rec["log"]]
    want_ids = [e[0] for e in ex.log]
    if got_ids != want_ids:
        dup = len(got_ids) != len(set(got_ids))
        out.append(("callbacks-invoked", "C02,C12,C05" if rec["mode"] != "base" else "C02,C12",
                    "invoked callbacks %s, expected %s%s" % (got_ids, want_ids, " (a callback ran twice)" if dup else "")))
    else:
        for g, w in zip(rec["log"], ex.log):
            if w[2] >= 0 and (g[3], g[4]) != (w[2], w[3]):
                out.append(("callback-argument", "C02,C12", "step %d received state=%d code=%d, expected state=%d code=%d" % (g[0], g[3], g[4], w[2], w[3])))
                break
        for g, w in zip(rec["log"], ex.log):
            if w[1] is not None and g[1] != w[1]:
                out.append(("ran-on-executor", "C05", "step %d ran with executor tag %d, expected %d" % (g[0], g[1], w[1])))
                break
    for g in rec["log"]:
        if g[2] != 1:
            out.append(("ran-before-start", "C12", "step %d ran before the task was started" % g[0]))
            break
    if ex.final is not None:
        if not rec.get("ready"):
            out.append(("final-not-ready", "C02,C12", "final future not Ready at quiescence"))
        elif tuple(rec["final"]) != tuple(ex.final):
            out.append(("final-result", "C02,C12,C05" if rec["mode"] != "base" else "C02,C12",
                        "final Result state=%d code=%d, expected state=%d code=%d" % (rec["final"][0], rec["final"][1], ex.final[0], ex.final[1])))
    if ex.sib is not None:
        sb = rec.get("sib") or [0, 0, -9, 0, -1, -9, 0]
        if sb[0] != 1:
            out.append(("sibling-exactly-once", "C02,C06", "the other consumer of the shared source was invoked %d times" % sb[0]))
        else:
            if (sb[2], sb[3]) != tuple(ex.sib["dig"]):
                out.append(("sibling-argument", "C02,C06,C05" if rec["mode"] != "base" else "C02,C06",
                            "the other consumer of the shared source received state=%d code=%d, expected state=%d code=%d"
                            % (sb[2], sb[3], ex.sib["dig"][0], ex.sib["dig"][1])))
            if ex.sib["tag"] is not None and sb[1] != ex.sib["tag"]:
                out.append(("ran-on-executor", "C05", "the other consumer of the shared source ran with executor tag %d, expected %d" % (sb[1], ex.sib["tag"])))
        if ex.sib["final"] is not None:
            if sb[4] != 1:
                out.append(("final-not-ready", "C02,C06", "the future returned to the other consumer of the shared source is not Ready at quiescence"))
            elif (sb[5], sb[6]) != tuple(ex.sib["final"]):
                out.append(("final-result", "C02,C06", "the other consumer's future holds state=%d code=%d, expected state=%d code=%d"
                            % (sb[5], sb[6], ex.sib["final"][0], ex.sib["final"][1])))
    if rec["submits"] != ex.submits:
        out.append(("submission-count", "C05", "%d Submit calls on instrumented executors, expected %d" % (rec["submits"], ex.submits)))
    if rec.get("shared_bad"):
        out.append(("shared-state-intact", "C02,C06", "%d SharedFuture(s) returned by steps no longer hold the Result that was set (moved-from or changed)" % rec["shared_bad"]))
    # C12: "destroying a Task that was never started ... releases every captured functor" (and a started one its result)
    rel = "C03,C12" if p.lazy else "C03"
    if rec["live"] != 0 or rec["bad"] != 0:
        out.append(("tracked-leak", rel, "tracked objects (functor captures, values) alive at quiescence: %d, canary failures: %d" % (rec["live"], rec["bad"])))
    if rec["balance"] != 0:
        out.append(("alloc-balance", rel, "operator new/delete imbalance at quiescence: %d" % rec["balance"]))
    if not p.shared_involved() and rec.get("copies", 0) != 0:
        # On a pipeline of unique futures every hand-over of the value is a move; a copy made by the library is a heap
        # allocation for any heap-owning payload, on top of the one block the step itself may allocate.
        out.append(("payload-copied", "C20", "the payload was copy-constructed/assigned %d times on a pipeline without any shared "
                    "future (every copy of a heap-owning value is an extra heap allocation in that step)" % rec["copies"]))
    if rec["mode"] == "base" and rec["allocs"] > ex.steps:
        out.append(("allocs-per-step", "C20", "%d allocations for %d pipeline steps" % (rec["allocs"], ex.steps)))
    return out, ex


# ---------------------------------------------------------------------------------------------------------------------
# generation

SIGS_T = ["R", "Rc", "Rv", "V", "Vc", "Vr", "E", "X"]
SIGS_V = ["R", "Rc", "N", "E", "X"]
SIGS_SHARED = ["Rc", "Rv", "V", "Vc", "E", "X"]
ATTACH = ["inline", "exec", "exec", "inherit", "stopped"]


SLOT_PARAMS = {}


def gen_ret(rng, sid, ovt, coro, allow_async=True, deferred_ok=True, slots=None):
    kinds = ["val" if ovt == "T" else "void", "res", "res", "throw"]
    if allow_async:
        kinds += ["fut_ready", "task_make", "task_sched"]
        if deferred_ok:
            kinds += ["fut_pending", "fut_run", "task_sched_e", "task_lazycontract"]
        else:
            kinds += ["task_lazycontract"]
        if ovt == "T":
            kinds += ["shared_ready"] + (["shared_pending"] if deferred_ok else [])
            if slots is not None:
                kinds += ["shared_slot", "shared_slot"]
        if coro:
            kinds += ["task_coro"]
    k = rng.choice(kinds)
    r = {"kind": k, "code": 1000 * sid + rng.randrange(1, 99)}
    if k in ("res", "fut_ready", "fut_pending", "shared_ready", "shared_pending", "task_lazycontract", "task_coro"):
        r["st"] = rng.choice([ST_VAL, ST_VAL, ST_ERR, ST_EXC])
    if k == "shared_slot":
        i = rng.randrange(2)
        sp = slots[i]
        if not deferred_ok:
            sp = dict(sp, pending=0)
            slots[i] = sp
        r.update({"slot": i, "pending": sp["pending"], "st": sp["st"], "code": sp["code"]})
    if k in ("fut_run", "task_sched_e"):
        r["etag"] = rng.choice([1, 2, 3, 4]) if deferred_ok else 3
    if k in ("fut_run", "task_sched_e", "task_sched", "task_lazycontract", "task_coro"):
        r["iid"] = 100 + sid * 10
    if k.startswith("task_") and ovt == "T" and rng.random() < 0.4:
        r["hid"] = 100 + sid * 10 + 1
        r["hcode"] = 1000 * sid + 500 + rng.randrange(1, 99)
    return r


def gen_step(rng, sid, in_vt, from_shared, inherited_known, coro, immediate_only=False, force=None, slots=None):
    sigs = SIGS_SHARED if from_shared else (SIGS_T if in_vt == "T" else SIGS_V)
    sig = rng.choice(sigs)
    attach = rng.choice(ATTACH)
    if attach == "inherit" and not inherited_known:
        attach = "exec"
    etag = None
    if attach == "exec":
        etag = 3 if immediate_only else rng.choice([1, 2, 3])
    elif attach == "stopped":
        etag = 4
    if sig in ("E", "X"):
        out_vt = in_vt
    else:
        out_vt = rng.choice(["T", "T", "void"])
    if force:
        sig = force.get("sig", sig)
        attach = force.get("attach", attach)
        etag = force.get("etag", etag)
        out_vt = force.get("out_vt", out_vt)
        if sig in ("E", "X"):
            out_vt = in_vt
    ret = force["ret"] if force and "ret" in force else gen_ret(rng, sid, out_vt, coro, deferred_ok=not immediate_only, slots=slots)
    return Step(sid, attach, etag, sig, ret, in_vt, out_vt)


def gen_source(rng, lazy, coro):
    vt = rng.choice(["T", "T", "void"])
    st = rng.choice([ST_VAL, ST_VAL, ST_ERR, ST_EXC])
    code = rng.randrange(1, 99)
    if lazy:
        kinds = ["schedule_e", "schedule", "lazy_contract", "lazy_contract_e", "make_task"] + (["coro_task"] if coro else [])
    else:
        kinds = ["ready", "contract_before", "contract_after", "contract_on", "run_e", "run", "async_contract", "shared", "shared_on"] + (["coro"] if coro else [])
    k = rng.choice(kinds)
    src = {"kind": k, "vt": vt, "st": st, "code": code}
    if k == "shared":
        src["vt"] = "T"
        src["pending"] = rng.random() < 0.5
    if k == "shared_on":
        src["vt"] = "T"
    if k in ("run_e", "schedule_e", "async_contract", "lazy_contract_e", "shared_on"):
        src["etag"] = rng.choice([1, 2, 3])
    if k in ("async_contract", "lazy_contract", "lazy_contract_e") and rng.random() < 0.4:
        src["connect"] = rng.choice(["pending", "ready"])
    if k in ("shared", "shared_on") and rng.random() < 0.5:
        att = rng.choice(["inline", "exec", "stopped"] + (["inherit", "inherit"] if k == "shared_on" else []))
        src["sib"] = {"kind": rng.choice(["sub", "then"]), "attach": att, "when": rng.choice(["before", "after"]),
                      "etag": {"exec": rng.choice([1, 2, 3]), "stopped": 4}.get(att)}
    if k in ("run_e", "run", "schedule_e", "schedule", "shared_on"):
        src["fret"] = gen_ret(rng, 0, src["vt"], coro, allow_async=False)
        src["fret"]["code"] = code
        if rng.random() < 0.3:
            src["hsig"] = "Rv"
    return src


def inherited_after(src, steps_so_far, lazy, start):
    inh = None
    if src["kind"] in ("run_e", "schedule_e", "async_contract", "lazy_contract_e", "shared_on"):
        inh = src["etag"]
    if src["kind"] == "contract_on":
        inh = 1
    if lazy and start in ("tofuture_e", "detach_e"):
        inh = 2
    if lazy and start == "drop":
        inh = "dead"
    for s in steps_so_far:
        if s.attach in ("exec", "stopped"):
            inh = s.etag
    return inh


def gen_prog(rng, pid, lazy, coro, length):
    p = Prog(pid)
    p.lazy = lazy
    p.coro = coro
    p.source = gen_source(rng, lazy, coro)
    if lazy:
        p.start = rng.choice(["tofuture", "tofuture", "tofuture_e", "get", "detach", "detach_e", "drop"])
    else:
        p.tail = rng.choice(["get", "get", "get", "detach"])
    immediate_only = lazy and p.start == "get"
    if immediate_only and p.source["kind"] in ("schedule_e", "lazy_contract_e"):
        p.source["etag"] = 3
    if immediate_only and p.source.get("connect") == "pending":
        p.source["connect"] = "ready"  # Get() blocks: nobody could fulfil the pending future
    cur_vt = p.source["vt"]
    from_shared = p.source["kind"] in ("shared", "shared_on")
    slots = [{"pending": rng.randrange(2), "st": rng.choice([ST_VAL, ST_VAL, ST_EXC, ST_ERR]), "code": 9100 + rng.randrange(1, 99)},
             {"pending": rng.randrange(2), "st": rng.choice([ST_VAL, ST_VAL, ST_EXC, ST_ERR]), "code": 9200 + rng.randrange(1, 99)}]
    for i in range(length):
        inh = inherited_after(p.source, p.steps, lazy, p.start)
        st = gen_step(rng, i + 1, cur_vt, from_shared and i == 0, inh is not None, coro, immediate_only, slots=slots)
        last = i == length - 1
        if (not lazy) and p.tail == "detach" and last:
            # Detach* callbacks return void
            if st.sig in ("E", "X"):
                st.sig = "R" if not from_shared or i > 0 else "Rc"
            st.out_vt = "void"
            st.ret = {"kind": "void", "code": 0}
        p.steps.append(st)
        cur_vt = st.out_vt
    if (not lazy) and p.tail == "detach" and p.source["kind"] == "shared" and length == 1 and p.steps[0].attach == "inherit":
        p.steps[0].attach = "inline"
    return p


def make_twin(p, pid):
    """eager twin of a lazy program (C12): same steps, eager source"""
    import copy
    q = copy.deepcopy(p)
    q.id = pid
    q.lazy = False
    q.twin_of = p.id
    q.tail = "get"
    m = {"schedule_e": "run_e", "schedule": "run", "lazy_contract": "async_contract", "lazy_contract_e": "async_contract",
         "make_task": "ready", "coro_task": "coro"}
    q.source = dict(p.source)
    q.source["kind"] = m[p.source["kind"]]
    if p.source["kind"] == "lazy_contract":
        q.source["etag"] = 3
    return q


def generate(seed, n_random, coro, max_len=4, exhaustive_l1=True):
    rng = random.Random(seed)
    progs = []
    pid = 0
    if exhaustive_l1:
        # every source kind x attach x signature x return kind, length 1 (the sub-space is complete for the listed kinds)
        for lazy in (False, True):
            kinds_src = (["schedule_e", "schedule", "lazy_contract", "make_task"] + (["coro_task"] if coro else [])) if lazy else \
                        (["ready", "contract_after", "contract_on", "run_e", "shared", "shared_on"] + (["coro"] if coro else []))
            for sk in kinds_src:
                for attach in ("inline", "exec", "inherit", "stopped"):
                    for sig in SIGS_T:
                        for rk in ["val", "void", "res", "throw", "fut_ready", "fut_pending", "fut_run", "shared_ready", "shared_pending", "shared_slot",
                                   "task_make", "task_sched_e", "task_sched", "task_lazycontract"] + (["task_coro"] if coro else []):
                            for in_state in (ST_VAL, ST_ERR, ST_EXC):
                                p = Prog(pid)
                                # variation selector: a hash of the id, so that a stride sample of the list does not
                                # alias with the modulo choices below
                                q = ((pid * 2654435761) & 0xFFFFFFFF) >> 9
                                p.lazy = lazy
                                p.coro = coro
                                src = {"kind": sk, "vt": "T", "st": in_state, "code": 7}
                                if sk == "shared":
                                    src["pending"] = (q % 2 == 0)
                                if sk in ("shared", "shared_on"):
                                    if sig in ("R", "Vr"):
                                        continue
                                    if q % 3 != 2 and (attach != "inherit" or sk == "shared_on"):
                                        # another consumer on the same shared source, attached the same way as the step
                                        src["sib"] = {"kind": "then" if q % 2 else "sub", "attach": attach, "when": "before" if (q // 2) % 2 else "after",
                                                      "etag": {"exec": 1 + (q // 3) % 2, "stopped": 4}.get(attach)}
                                if sk == "lazy_contract" and q % 3 != 0:
                                    src["connect"] = "pending" if q % 3 == 1 else "ready"
                                if sk in ("run_e", "schedule_e", "shared_on"):
                                    src["etag"] = 1
                                if sk in ("run_e", "run", "schedule_e", "schedule", "shared_on"):
                                    src["fret"] = {"kind": "res", "st": in_state, "code": 7}
                                    if (q // 11) % 3 == 0:
                                        src["hsig"] = "Rv"
                                p.source = src
                                if attach == "inherit" and inherited_after(src, [], lazy, "tofuture") is None:
                                    continue
                                out_vt = "void" if rk == "void" else "T"
                                if sig in ("E", "X") and out_vt != "T":
                                    continue
                                ret = {"kind": rk, "code": 1042}
                                if rk in ("res", "fut_ready", "fut_pending", "shared_ready", "shared_pending", "shared_slot", "task_lazycontract", "task_coro"):
                                    ret["st"] = [ST_VAL, ST_ERR, ST_EXC][q % 3]
                                if rk == "shared_slot":
                                    ret["slot"] = 0
                                    ret["pending"] = (q // 3) % 2
                                if rk in ("fut_run", "task_sched_e"):
                                    ret["etag"] = [2, 3, 4][(q // 5) % 3]
                                if rk in ("fut_run", "task_sched_e", "task_sched", "task_lazycontract", "task_coro"):
                                    ret["iid"] = 110
                                if rk.startswith("task_") and q % 2 == 1:
                                    ret["hid"] = 111
                                    ret["hcode"] = 1555
                                etag = {"exec": 1 + q % 2, "stopped": 4}.get(attach)
                                p.steps = [Step(1, attach, etag, sig, ret, "T", out_vt)]
                                p.start = "tofuture"
                                p.tail = "get"
                                progs.append(p)
                                pid += 1
    if exhaustive_l1:
        # lazy sources x the other ways of starting / abandoning x attach x signature, a reduced set of return kinds
        for sk in ["schedule_e", "schedule", "lazy_contract", "make_task"] + (["coro_task"] if coro else []):
            for start in ("tofuture_e", "detach", "detach_e", "drop"):
                for attach in ("inline", "exec", "inherit", "stopped"):
                    for sig in SIGS_T:
                        for rk in ("val", "fut_ready"):
                            for in_state in (ST_VAL, ST_ERR):
                                p = Prog(pid)
                                # variation selector: a hash of the id, so that a stride sample of the list does not
                                # alias with the modulo choices below
                                q = ((pid * 2654435761) & 0xFFFFFFFF) >> 9
                                p.lazy = True
                                p.coro = coro
                                src = {"kind": sk, "vt": "T", "st": in_state, "code": 7}
                                if sk == "schedule_e":
                                    src["etag"] = 1
                                if sk == "lazy_contract" and q % 3 != 0:
                                    src["connect"] = "pending" if q % 3 == 1 else "ready"
                                if sk in ("schedule_e", "schedule"):
                                    src["fret"] = {"kind": "res", "st": in_state, "code": 7}
                                    if (q // 11) % 3 == 0:
                                        src["hsig"] = "Rv"
                                p.source = src
                                p.start = start
                                inh = inherited_after(src, [], True, start)
                                if attach == "inherit" and inh is None:
                                    continue
                                ret = {"kind": rk, "code": 1042}
                                if rk == "fut_ready":
                                    ret["st"] = [ST_VAL, ST_ERR, ST_EXC][q % 3]
                                etag = {"exec": 1 + q % 2, "stopped": 4}.get(attach)
                                p.steps = [Step(1, attach, etag, sig, ret, "T", "T")]
                                progs.append(p)
                                pid += 1
    for i in range(n_random):
        lazy = rng.random() < 0.5
        if max_len <= 4:
            length = rng.choice([1, 2, 2, 3, 3, 4][:max(1, max_len + 2)])
        else:  # thorough tier: longer chains (same step machinery, more routing / inheritance combinations per program)
            length = rng.choice([1, 2, 2, 3, 3, 4, 4, 5, 5, 6, 7, 8])
        length = min(length, max_len)
        p = gen_prog(rng, pid, lazy, coro, length)
        progs.append(p)
        pid += 1
        if lazy and p.start in ("tofuture", "get") and rng.random() < 0.5:
            progs.append(make_twin(p, pid))
            pid += 1
    return progs
