// pg_main.cpp — runner for generated pipeline programs: one forked child per program, inside it the baseline run
// (no rejection) followed by the complete enumeration of rejection points k (from the k-th Submit on / only the k-th).
#include "pg_rt.hpp"

#include <sys/mman.h>
#include <sys/wait.h>
#include <unistd.h>

#include <string>
#include <vector>

namespace pg {
Counters gc;
Rt g;
PgExec E1{1, 0}, E2{2, 0}, I3{3, 1}, S4{4, 2};
PendingSlots gp;
SharedSlots gs;
Out gout;
long alloc_mark = 0;

std::vector<ProgEntry>& Registry() {
  static std::vector<ProgEntry> r;
  return r;
}
Reg::Reg(int id, ProgFn fn, int flags) {
  Registry().push_back({id, fn, flags});
}
}  // namespace pg

void* operator new(std::size_t n) {
  pg::gc.news++;
  void* p = std::malloc(n == 0 ? 1 : n);
  if (p == nullptr) {
    std::abort();
  }
  return p;
}
void* operator new[](std::size_t n) {
  return operator new(n);
}
void operator delete(void* p) noexcept {
  if (p != nullptr) {
    pg::gc.deletes++;
    std::free(p);
  }
}
void operator delete[](void* p) noexcept {
  operator delete(p);
}
void operator delete(void* p, std::size_t) noexcept {
  operator delete(p);
}
void operator delete[](void* p, std::size_t) noexcept {
  operator delete(p);
}

#if defined(__SANITIZE_ADDRESS__)
extern "C" const char* __asan_default_options() {
  return "exitcode=99:abort_on_error=0:detect_leaks=1:detect_stack_use_after_return=1";
}
#  include <sanitizer/lsan_interface.h>
#endif

namespace {

void ResetState() {
  using namespace pg;
  g.nlog = 0;
  g.started = 1;
  g.tag = 0;
  g.submit_seq = 0;
  g.reject_from = -1;
  g.reject_only = -1;
  g.rejected = 0;
  for (auto& s : g.submits) {
    s = 0;
  }
  gp.n = 0;
  gp.done = 0;
  gs.made[0] = gs.made[1] = 0;
  gs.sf[0] = {};
  gs.sf[1] = {};
  gout = Out{};
}

void PrintRun(int id, const char* mode, long k, long live0, long bad0, long bal0, long copies0) {
  using namespace pg;
  std::string s;
  char b[512];
  std::snprintf(b, sizeof b,
                "{\"id\":%d,\"mode\":\"%s\",\"k\":%ld,\"final\":[%d,%d],\"ready\":%d,\"finished\":%d,\"allocs\":%ld,"
                "\"live\":%ld,\"bad\":%ld,\"balance\":%ld,\"submits\":%ld,\"rejected\":%ld,\"shared_bad\":%d,\"copies\":%ld,\"sib\":[%d,%d,%d,%d,%d,%d,%d],\"log\":[",
                id, mode, k, gout.final_state, gout.final_code, gout.ready, gout.finished, gout.allocs, gc.live - live0,
                gc.bad - bad0, (gc.news - gc.deletes) - bal0, g.submit_seq, g.rejected, gout.shared_bad, gc.copies - copies0, gout.sib_calls,
                gout.sib_tag, gout.sib_state, gout.sib_code, gout.sib_ready, gout.sib_fstate, gout.sib_fcode);
  s += b;
  for (int i = 0; i < g.nlog; ++i) {
    std::snprintf(b, sizeof b, "%s[%d,%d,%d,%d,%d]", i == 0 ? "" : ",", g.log[i].step, g.log[i].tag, g.log[i].started,
                  g.log[i].state, g.log[i].code);
    s += b;
  }
  s += "]}\n";
  (void)!write(1, s.data(), s.size());
}

void RunVariant(const pg::ProgEntry& p, const char* mode, long k) {
  using namespace pg;
  ResetState();
  if (std::strcmp(mode, "from") == 0) {
    g.reject_from = k;
  } else if (std::strcmp(mode, "only") == 0) {
    g.reject_only = k;
  }
  char b[96];
  int n = std::snprintf(b, sizeof b, "START %d %s %ld\n", p.id, mode, k);
  (void)!write(1, b, static_cast<std::size_t>(n));
  long live0 = gc.live, bad0 = gc.bad, bal0 = gc.news - gc.deletes, copies0 = gc.copies;
  p.fn();
  PrintRun(p.id, mode, k, live0, bad0, bal0, copies0);
}

}  // namespace

int main(int argc, char** argv) {
  int shard = 0, nshard = 1;
  bool enumerate = true;
  int only_id = -1;
  for (int i = 1; i < argc; ++i) {
    std::string a = argv[i];
    if (a == "--shard" && i + 2 < argc) {
      shard = std::atoi(argv[++i]);
      nshard = std::atoi(argv[++i]);
    } else if (a == "--no-enumerate") {
      enumerate = false;
    } else if (a == "--id" && i + 1 < argc) {
      only_id = std::atoi(argv[++i]);
    } else if (a == "--count") {
      std::printf("%zu\n", pg::Registry().size());
      return 0;
    }
  }
  int* shm = static_cast<int*>(mmap(nullptr, 4096, PROT_READ | PROT_WRITE, MAP_SHARED | MAP_ANONYMOUS, -1, 0));
  pg::g.cur_step_shm = shm;
  auto& reg = pg::Registry();
  for (std::size_t pi = 0; pi < reg.size(); ++pi) {
    if (static_cast<int>(pi % static_cast<std::size_t>(nshard)) != shard) {
      continue;
    }
    if (only_id >= 0 && reg[pi].id != only_id) {
      continue;
    }
    *shm = -1;
    std::fflush(stdout);
    pid_t pid = fork();
    if (pid == 0) {
      const auto& p = reg[pi];
      RunVariant(p, "base", -1);
      long S = pg::g.submit_seq;
      if (enumerate && (p.flags & 1) != 0) {
        // several consumers of one shared source: which of them submits first is unspecified, so only "every Submit
        // refused" is a rejection pattern whose outcome does not depend on that order
        if (S > 0) {
          RunVariant(p, "from", 0);
        }
      } else if (enumerate) {
        for (long k = 0; k < S; ++k) {
          RunVariant(p, "from", k);
        }
        for (long k = 0; k < S; ++k) {
          RunVariant(p, "only", k);
        }
      }
#if defined(__SANITIZE_ADDRESS__)
      if (__lsan_do_recoverable_leak_check() != 0) {
        const char m[] = "LEAK\n";
        (void)!write(1, m, sizeof m - 1);
      }
#endif
      _exit(0);
    }
    int st = 0;
    waitpid(pid, &st, 0);
    if (!(WIFEXITED(st) && WEXITSTATUS(st) == 0)) {
      char b[160];
      int n = std::snprintf(b, sizeof b, "{\"id\":%d,\"crash\":%d,\"signal\":%d,\"cur_step\":%d}\n", reg[pi].id,
                            WIFEXITED(st) ? WEXITSTATUS(st) : -1, WIFSIGNALED(st) ? WTERMSIG(st) : 0, *shm);
      (void)!write(1, b, static_cast<std::size_t>(n));
    }
  }
  return 0;
}
