// pg_rt.hpp — runtime for generated pipeline programs (engine E3 "pipegen").
// Single-threaded, deterministic, allocation-free instrumentation: every callback of a generated program calls
// pg::Enter(step, digest) which appends to a fixed log; executors are intrusive-queue "manual" executors with a tag
// and a global submission counter that can reject (Drop) from the k-th Submit on, or only the k-th.
#pragma once

#include <yaclib/async/connect.hpp>
#include <yaclib/async/contract.hpp>
#include <yaclib/async/make.hpp>
#include <yaclib/async/run.hpp>
#include <yaclib/async/shared_contract.hpp>
#include <yaclib/async/split.hpp>
#include <yaclib/exe/executor.hpp>
#include <yaclib/exe/inline.hpp>
#include <yaclib/lazy/make.hpp>
#include <yaclib/lazy/schedule.hpp>
#include <yaclib/lazy/task.hpp>
#if YACLIB_CORO != 0
#  include <yaclib/coro/await.hpp>
#  include <yaclib/coro/future.hpp>
#  include <yaclib/coro/task.hpp>
#endif

#include <cstdio>
#include <cstdlib>
#include <cstring>
#include <exception>
#include <new>
#include <utility>

namespace pg {

// ---- payload / error types -----------------------------------------------------------------------------------------
struct Counters {
  long live = 0, bad = 0, news = 0, deletes = 0;
  long copies = 0;  // copy constructions / copy assignments of the payload (whoever makes them)
};
extern Counters gc;

struct Tracked {
  static constexpr unsigned long long kMagic = 0x7AC4ED00C0FFEE11ull;
  unsigned long long magic;
  int v;
  bool moved;
  Tracked() noexcept : Tracked(0) {
  }
  explicit Tracked(int x) noexcept : magic{kMagic ^ static_cast<unsigned>(x)}, v{x}, moved{false} {
    gc.live++;
  }
  Tracked(const Tracked& o) noexcept : magic{o.magic}, v{o.v}, moved{o.moved} {
    if (!o.Good()) {
      gc.bad++;
    }
    gc.live++;
    gc.copies++;
  }
  Tracked(Tracked&& o) noexcept : magic{o.magic}, v{o.v}, moved{o.moved} {
    if (!o.Good()) {
      gc.bad++;
    }
    o.moved = true;
    gc.live++;
  }
  Tracked& operator=(const Tracked& o) noexcept {
    gc.copies++;
    if (!o.Good() || !Good()) {
      gc.bad++;
    }
    magic = o.magic;
    v = o.v;
    moved = o.moved;
    return *this;
  }
  Tracked& operator=(Tracked&& o) noexcept {
    if (!o.Good() || !Good()) {
      gc.bad++;
    }
    magic = o.magic;
    v = o.v;
    moved = o.moved;
    o.moved = true;
    return *this;
  }
  ~Tracked() noexcept {
    if (!Good()) {
      gc.bad++;
    }
    magic = 0xDEADDEADDEADDEADull;
    gc.live--;
  }
  [[nodiscard]] bool Good() const noexcept {
    return magic == (kMagic ^ static_cast<unsigned>(v));
  }
};

struct MyError {
  int code = 0;
  MyError() noexcept = default;
  explicit MyError(int c) noexcept : code{c} {
  }
  MyError(yaclib::StopTag) noexcept : code{-1} {
  }
  [[nodiscard]] const char* What() const noexcept {
    return "MyError";
  }
};
struct MyException {
  int code;
};

// functor capture that must be destroyed exactly once
struct Cap {
  Tracked t;
  explicit Cap(int id) : t{5000 + id} {
  }
};

using RT = yaclib::Result<Tracked, MyError>;
using RV = yaclib::Result<void, MyError>;

// ---- global run state ----------------------------------------------------------------------------------------------
struct Entry {
  int step, tag, started, state, code;
};
struct Rt {
  Entry log[512];
  int nlog = 0;
  int started = 1;
  int tag = 0;            // executor context the current code runs in
  long submit_seq = 0;    // global count of Submit calls on instrumented executors
  long reject_from = -1;  // Drop every Submit with seq >= reject_from
  long reject_only = -1;  // Drop only the Submit with seq == reject_only
  long submits[8] = {};
  long rejected = 0;
  volatile int* cur_step_shm = nullptr;  // last entered step, readable by the supervisor after a crash
};
extern Rt g;

inline int ExcCode(const std::exception_ptr& e) {
  if (!e) {
    return -998;  // moved-from / empty exception_ptr
  }
  try {
    std::rethrow_exception(e);
  } catch (const MyException& x) {
    return x.code;
  } catch (const yaclib::ResultError<MyError>& x) {
    return 700000 + x.Get().code;
  } catch (...) {
    return -777;
  }
}

struct Dig {
  int state, code;
};
inline Dig D(const Tracked& v) {
  return {0, v.Good() && !v.moved ? v.v : -999};
}
inline Dig D() {
  return {0, 0};
}
inline Dig D(const MyError& e) {
  return {2, e.code};
}
inline Dig D(const std::exception_ptr& e) {
  return {1, ExcCode(e)};
}
inline Dig D(const RT& r) {
  int s = static_cast<int>(r.State());
  if (s == 0) {
    return D(r.Value());
  }
  if (s == 1) {
    return {1, ExcCode(r.Exception())};
  }
  if (s == 2) {
    return {2, r.Error().code};
  }
  return {3, 0};
}
inline Dig D(const RV& r) {
  int s = static_cast<int>(r.State());
  if (s == 1) {
    return {1, ExcCode(r.Exception())};
  }
  if (s == 2) {
    return {2, r.Error().code};
  }
  return {s, 0};
}

inline void Enter(int step, Dig d) {
  if (g.cur_step_shm != nullptr) {
    *g.cur_step_shm = step;
  }
  if (g.nlog < 512) {
    g.log[g.nlog++] = {step, g.tag, g.started, d.state, d.code};
  }
}

// ---- executors -----------------------------------------------------------------------------------------------------
class PgExec final : public yaclib::IExecutor {
 public:
  PgExec(int tag, int mode) noexcept : _tag{tag}, _mode{mode} {
  }
  [[nodiscard]] Type Tag() const noexcept final {
    // I3 and S4 present themselves like yaclib::MakeInline() / MakeInline(StopTag{}): the tag is advisory, a step
    // attached with an explicit executor still has to go through Submit (and is dropped by the stopped one)
    return _mode == 0 ? Type::Custom : Type::Inline;
  }
  [[nodiscard]] bool Alive() const noexcept final {
    return _mode != 2;
  }
  void Submit(yaclib::Job& job) noexcept final {
    long k = g.submit_seq++;
    g.submits[_tag]++;
    bool reject = _mode == 2 || (g.reject_from >= 0 && k >= g.reject_from) || (g.reject_only >= 0 && k == g.reject_only);
    if (reject) {
      g.rejected++;
      job.Drop();
      return;
    }
    if (_mode == 1) {
      int prev = g.tag;
      g.tag = _tag;
      job.Call();
      g.tag = prev;
      return;
    }
    job.next = nullptr;
    if (_tail == nullptr) {
      _head = _tail = &job;
    } else {
      _tail->next = &job;
      _tail = &job;
    }
  }
  bool Drain() noexcept {
    bool any = false;
    while (_head != nullptr) {
      auto* j = static_cast<yaclib::Job*>(_head);
      _head = j->next;
      if (_head == nullptr) {
        _tail = nullptr;
      }
      int prev = g.tag;
      g.tag = _tag;
      j->Call();
      g.tag = prev;
      any = true;
    }
    return any;
  }
  [[nodiscard]] bool Empty() const noexcept {
    return _head == nullptr;
  }

 private:
  int _tag;
  int _mode;  // 0 queued (manual), 1 immediate, 2 always stopped
  yaclib::detail::Node* _head = nullptr;
  yaclib::detail::Node* _tail = nullptr;
};

extern PgExec E1, E2, I3, S4;

// ---- pending contracts (fulfilled by Quiesce after the executors ran dry) -------------------------------------------
struct PendingSlots {
  yaclib::Promise<Tracked, MyError> pt[16];
  yaclib::Promise<void, MyError> pv[16];
  yaclib::SharedPromise<Tracked, MyError> spt[16];
  int kind[16];  // 0 T, 1 void, 2 shared T
  int state[16], code[16];
  int n = 0, done = 0;
};
extern PendingSlots gp;

template <typename P>
void SetState(P&& p, int state, int code) {
  using Pr = std::remove_reference_t<P>;
  if (state == 0) {
    if constexpr (std::is_same_v<Pr, yaclib::Promise<void, MyError>>) {
      std::move(p).Set();
    } else {
      std::move(p).Set(Tracked{code});
    }
  } else if (state == 2) {
    std::move(p).Set(MyError{code});
  } else {
    std::move(p).Set(std::make_exception_ptr(MyException{code}));
  }
}

inline yaclib::Future<Tracked, MyError> PendingT(int state, int code) {
  auto [f, p] = yaclib::MakeContract<Tracked, MyError>();
  int i = gp.n++;
  gp.kind[i] = 0;
  gp.state[i] = state;
  gp.code[i] = code;
  gp.pt[i] = std::move(p);
  return std::move(f);
}
inline yaclib::Future<void, MyError> PendingV(int state, int code) {
  auto [f, p] = yaclib::MakeContract<void, MyError>();
  int i = gp.n++;
  gp.kind[i] = 1;
  gp.state[i] = state;
  gp.code[i] = code;
  gp.pv[i] = std::move(p);
  return std::move(f);
}
inline yaclib::SharedFuture<Tracked, MyError> PendingST(int state, int code) {
  auto [f, p] = yaclib::MakeSharedContract<Tracked, MyError>();
  int i = gp.n++;
  gp.kind[i] = 2;
  gp.state[i] = state;
  gp.code[i] = code;
  gp.spt[i] = std::move(p);
  return std::move(f);
}
inline yaclib::Future<Tracked, MyError> ReadyT(int state, int code) {
  auto [f, p] = yaclib::MakeContract<Tracked, MyError>();
  SetState(std::move(p), state, code);
  return std::move(f);
}
inline yaclib::Future<void, MyError> ReadyV(int state, int code) {
  auto [f, p] = yaclib::MakeContract<void, MyError>();
  SetState(std::move(p), state, code);
  return std::move(f);
}
inline yaclib::SharedFuture<Tracked, MyError> ReadyST(int state, int code) {
  auto [f, p] = yaclib::MakeSharedContract<Tracked, MyError>();
  SetState(std::move(p), state, code);
  return std::move(f);
}

// SharedFutures that several steps of one program may return and that are looked at again when the program is done
struct SharedSlots {
  yaclib::SharedFuture<Tracked, MyError> sf[2];
  int made[2] = {0, 0};
  int state[2], code[2];
};
extern SharedSlots gs;
inline yaclib::SharedFuture<Tracked, MyError> SharedSlot(int i, int pending, int state, int code) {
  if (gs.made[i] == 0) {
    gs.made[i] = 1;
    gs.state[i] = state;
    gs.code[i] = code;
    gs.sf[i] = pending != 0 ? PendingST(state, code) : ReadyST(state, code);
  }
  return gs.sf[i];
}

inline bool FulfilOne() {
  if (gp.done >= gp.n) {
    return false;
  }
  int i = gp.done++;
  if (gp.kind[i] == 0) {
    SetState(std::move(gp.pt[i]), gp.state[i], gp.code[i]);
  } else if (gp.kind[i] == 1) {
    SetState(std::move(gp.pv[i]), gp.state[i], gp.code[i]);
  } else {
    SetState(std::move(gp.spt[i]), gp.state[i], gp.code[i]);
  }
  return true;
}

inline void Quiesce() {
  for (int guard = 0; guard < 1000; ++guard) {
    bool any = E1.Drain();
    any = E2.Drain() || any;
    if (!any && !FulfilOne()) {
      return;
    }
  }
}

#if YACLIB_CORO != 0
inline yaclib::Task<Tracked, MyError> CoroTaskT(int id, int state, int code) {
  Enter(id, {-1, 0});
  if (state == 1) {
    throw MyException{code};
  }
  if (state == 2) {
    co_return MyError{code};
  }
  co_return Tracked{code};
}
inline yaclib::Task<void, MyError> CoroTaskV(int id, int state, int code) {
  Enter(id, {-1, 0});
  if (state == 1) {
    throw MyException{code};
  }
  if (state == 2) {
    co_return MyError{code};
  }
  co_return{};
}
inline yaclib::Future<Tracked, MyError> CoroFutureT(int id, int state, int code) {
  Enter(id, {-1, 0});
  if (state == 1) {
    throw MyException{code};
  }
  if (state == 2) {
    co_return MyError{code};
  }
  co_return Tracked{code};
}
inline yaclib::Future<void, MyError> CoroFutureV(int id, int state, int code) {
  Enter(id, {-1, 0});
  if (state == 1) {
    throw MyException{code};
  }
  if (state == 2) {
    co_return MyError{code};
  }
  co_return{};
}
#endif

// ---- result of one program run -------------------------------------------------------------------------------------
struct Out {
  int final_state = -9, final_code = 0;
  int ready = 0;     // final future Ready at quiescence
  int finished = 0;  // Finish() reached
  long allocs = 0;   // operator new calls between Begin() and Finish()
  int shared_bad = 0;  // shared slots whose value is no longer the one that was set (moved-from, torn, wrong)
  // the other consumer attached to a shared source next to the program's own chain
  int sib_calls = 0, sib_tag = 0, sib_state = -9, sib_code = 0;
  int sib_ready = -1, sib_fstate = -9, sib_fcode = 0;
};
extern Out gout;
extern long alloc_mark;

inline void Begin() {
  alloc_mark = gc.news;
}

// SharedFutureOn::Subscribe(f) hides the Subscribe(e, f) of its base class
inline const yaclib::SharedFutureBase<Tracked, MyError>& Base(const yaclib::SharedFutureBase<Tracked, MyError>& s) {
  return s;
}

inline void EnterSib(Dig d) {
  if (g.cur_step_shm != nullptr) {
    *g.cur_step_shm = 90;
  }
  gout.sib_calls++;
  gout.sib_tag = g.tag;
  gout.sib_state = d.state;
  gout.sib_code = d.code;
}
template <typename F>
void SibFinal(F&& f) {
  gout.sib_ready = f.Valid() && f.Ready() ? 1 : 0;
  if (gout.sib_ready != 0) {
    auto r = std::move(f).Get();
    Dig d = D(r);
    gout.sib_fstate = d.state;
    gout.sib_fcode = d.code;
  }
}

// after quiescence every shared slot must still hold exactly what was set, however often it was flattened
inline void CheckSharedSlots() {
  for (int i = 0; i < 2; ++i) {
    if (gs.made[i] != 0) {
      if (!gs.sf[i].Valid() || !gs.sf[i].Ready()) {
        gout.shared_bad++;
      } else {
        Dig d = D(std::as_const(gs.sf[i]).Touch());
        if (d.state != gs.state[i] || d.code != gs.code[i]) {
          gout.shared_bad++;
        }
      }
      gs.sf[i] = {};
      gs.made[i] = 0;
    }
  }
}

template <typename F>
void FinishFuture(F&& f) {
  Quiesce();
  gout.allocs = gc.news - alloc_mark;
  CheckSharedSlots();
  gout.ready = f.Valid() && f.Ready() ? 1 : 0;
  if (gout.ready != 0) {
    auto r = std::move(f).Get();
    Dig d = D(r);
    gout.final_state = d.state;
    gout.final_code = d.code;
  }
  gout.finished = 1;
}
// a detached tail (Detach / abandoned task): nothing to read, only the log matters
inline void FinishDetached() {
  Quiesce();
  gout.allocs = gc.news - alloc_mark;
  CheckSharedSlots();
  gout.ready = 1;
  gout.final_state = -5;
  gout.finished = 1;
}

using ProgFn = void (*)();
struct ProgEntry {
  int id;
  ProgFn fn;
  int flags;  // 1: only the order-free rejection patterns (none / everything) are meaningful
};
struct Reg {
  Reg(int id, ProgFn fn, int flags = 0);
};

}  // namespace pg
