"""pipegen driver: generate -> compile -> run (with complete rejection-point enumeration) -> check against the interpreter."""
import concurrent.futures as cf
import hashlib
import json
import os
import subprocess
import sys
import time

HERE = os.path.dirname(os.path.abspath(__file__))
sys.path.insert(0, os.path.dirname(HERE))
from vf import build  # noqa: E402
from pipegen import gen  # noqa: E402

PER_TU = 40


def _src_hash(*parts):
    h = hashlib.sha256()
    for p in parts:
        h.update(p.encode() if isinstance(p, str) else p)
    return h.hexdigest()[:16]


def build_binary(progs, variant, tag):
    """compile the programs into one runner binary (cached by content)"""
    libdir = build.lib(variant)
    texts = [gen.emit(p) for p in progs]
    rt = open(os.path.join(HERE, "pg_rt.hpp")).read() + open(os.path.join(HERE, "pg_main.cpp")).read()
    hh = _src_hash(variant, build.tree_hash(), rt, "\n".join(texts), build.VARIANT_TU_FLAGS[variant])
    out = os.path.join(build.BUILD, "bin", "pipegen-%s-%s-%s" % (tag, variant, hh))
    if os.path.exists(out):
        os.utime(out)
        return out
    with build.Lock(out + ".lock"):
        if os.path.exists(out):
            return out
        work = out + ".d"
        os.makedirs(work, exist_ok=True)
        flags = build.VARIANT_TU_FLAGS[variant]
        inc = "-I%s -I%s/include -I%s/include" % (HERE, build.REPO, libdir)
        tus = []
        for i in range(0, len(texts), PER_TU):
            path = os.path.join(work, "pg_%d.cpp" % (i // PER_TU))
            with open(path, "w") as fh:
                fh.write('#include "pg_rt.hpp"\n')
                fh.write("\n".join(texts[i:i + PER_TU]))
                fh.write("\n")
            tus.append(path)
        tus.append(os.path.join(HERE, "pg_main.cpp"))

        def cc(path):
            obj = os.path.join(work, os.path.basename(path) + ".o")
            cmd = "g++ %s %s -c %s -o %s" % (flags, inc, path, obj)
            r = subprocess.run(cmd, shell=True, stdout=subprocess.PIPE, stderr=subprocess.STDOUT)
            return obj, r.returncode, r.stdout.decode(errors="replace")

        objs = []
        with cf.ThreadPoolExecutor(max_workers=min(16, os.cpu_count() or 1)) as ex:
            for obj, rc, txt in ex.map(cc, tus):
                if rc != 0:
                    with open(out + ".log", "w") as fh:
                        fh.write(txt)
                    raise build.BuildError("pipegen TU failed to compile, see %s.log\n%s" % (out, "\n".join(l for l in txt.splitlines() if "error" in l)[:1500]))
                objs.append(obj)
        cmd = "g++ %s %s %s/src/libyaclib.a -lpthread -o %s.tmp" % (flags, " ".join(objs), libdir, out)
        r = subprocess.run(cmd, shell=True, stdout=subprocess.PIPE, stderr=subprocess.STDOUT)
        if r.returncode != 0:
            raise build.BuildError("pipegen link failed: " + r.stdout.decode(errors="replace")[-1500:])
        os.rename(out + ".tmp", out)
        subprocess.run("rm -rf %s" % work, shell=True)
        # prune older binaries of the same tag/variant
        d = os.path.dirname(out)
        pre = "pipegen-%s-%s-" % (tag, variant)
        olds = sorted([os.path.join(d, f) for f in os.listdir(d) if f.startswith(pre) and not f.endswith((".lock", ".log", ".tmp", ".d")) and os.path.join(d, f) != out],
                      key=os.path.getmtime)
        for p in olds[:-2]:
            try:
                os.remove(p)
            except OSError:
                pass
    return out


def run_binary(binary, nshards=16, enumerate_k=True):
    def shard(i):
        cmd = [binary, "--shard", str(i), str(nshards)]
        if not enumerate_k:
            cmd.append("--no-enumerate")
        r = subprocess.run(cmd, stdout=subprocess.PIPE, stderr=subprocess.PIPE)
        return r.stdout.decode(errors="replace"), r.stderr.decode(errors="replace")

    recs, crashes, leaks = [], [], 0
    with cf.ThreadPoolExecutor(max_workers=nshards) as ex:
        for out, err in ex.map(shard, range(nshards)):
            last_start = None
            for line in out.splitlines():
                if line.startswith("START"):
                    _, pid, mode, k = line.split()
                    last_start = (int(pid), mode, int(k))
                elif line.startswith("LEAK"):
                    leaks += 1
                    if last_start:
                        crashes.append({"id": last_start[0], "leak": True, "mode": last_start[1], "k": last_start[2], "stderr": err[-1500:]})
                elif line.startswith("{"):
                    d = json.loads(line)
                    if "crash" in d:
                        d["at"] = last_start
                        d["stderr"] = err[-2500:]
                        crashes.append(d)
                    else:
                        recs.append(d)
    return recs, crashes


def classify_crash(c):
    err = c.get("stderr", "")
    if "AddressSanitizer" in err:
        for k in ("heap-use-after-free", "stack-use-after-return", "double-free", "SEGV", "heap-buffer-overflow"):
            if k in err:
                return "asan-" + k
        return "asan-other"
    sig = c.get("signal", 0)
    return {11: "segv", 6: "abort", 0: "exit-%d" % c.get("crash", -1)}.get(sig, "signal-%d" % sig)


def evaluate(progs, recs, crashes):
    """returns (violations list of dict(key, props, case, detail), stats)"""
    byid = {p.id: p for p in progs}
    viols = []
    classes = set()
    runs = 0
    per_mode = {"base": 0, "from": 0, "only": 0}
    samples = []
    finals = {}
    for r in recs:
        p = byid[r["id"]]
        runs += 1
        per_mode[r["mode"]] += 1
        found, ex = gen.check_run(p, r)
        classes.add((p.klass(), r["mode"], tuple(e[0] for e in ex.log), ex.final))
        if r["mode"] == "base":
            finals[p.id] = (tuple(r["final"]), [e[0] for e in r["log"]], r.get("finished"))
            if len(samples) < 12 and p.id % 97 == 0:
                samples.append({"program": p.desc(), "observed_callback_order": [e[0] for e in r["log"]], "observed_final": r["final"],
                                "expected_final": ex.final, "submits": r["submits"], "allocations": r["allocs"], "step_budget": ex.steps})
        for oracle, props, msg in found:
            sid = None
            viols.append({"key": "pipegen/%s:%s" % (p.klass(sid), oracle), "props": props,
                          "case": "program %d (%s) mode=%s k=%d" % (p.id, p.desc(), r["mode"], r["k"]), "detail": msg, "prog": p.id})
    # eager twins (C12)
    twins = 0
    for p in progs:
        if p.twin_of is not None and p.id in finals and p.twin_of in finals:
            twins += 1
            a, b = finals[p.twin_of], finals[p.id]
            if a[2] and b[2] and (a[0] != b[0] or a[1] != b[1]):
                q = byid[p.twin_of]
                viols.append({"key": "pipegen/%s:lazy-vs-eager-twin" % q.klass(), "props": "C12",
                              "case": "program %d (%s) vs eager twin %d" % (q.id, q.desc(), p.id),
                              "detail": "lazy pipeline produced final=%s callbacks=%s, its eager twin final=%s callbacks=%s" % (a[0], a[1], b[0], b[1]), "prog": q.id})
    for c in crashes:
        p = byid[c["id"]]
        if c.get("leak"):
            viols.append({"key": "pipegen/%s:lsan-leak" % p.klass(), "props": "C03", "case": "program %d (%s)" % (p.id, p.desc()),
                          "detail": "LeakSanitizer: leaked blocks after the runs of this program\n" + c.get("stderr", "")[-800:], "prog": p.id})
            continue
        kind = classify_crash(c)
        step = c.get("cur_step", -1)
        at = c.get("at")
        # class of a crash = what the last entered step returned (that is what the library was processing), so that one
        # defect maps to one key whatever the source, signature or sanitizer build
        rk = None
        for st in p.steps:
            if st.id == step or (step >= 100 and step // 10 == 10 + st.id):
                rk = st.ret["kind"]
        kl = ("%s/step-returns=%s" % ("lazy" if p.lazy else "eager", rk)) if rk else p.klass()
        viols.append({"key": "pipegen/%s:crash" % kl, "props": "C02,C12,C03,C05",
                      "case": "program %d (%s) at %s, last entered step %d" % (p.id, p.desc(), at, step),
                      "detail": "child process died (%s)\n%s" % (kind, c.get("stderr", "")[-1200:]), "prog": p.id})
        _ = kind
    stats = {"runs": runs, "programs": len(progs), "per_mode": per_mode, "distinct_classes": len(classes), "twins_compared": twins,
             "crashed_programs": len([c for c in crashes if not c.get("leak")]), "samples": samples}
    return viols, stats


def l1_programs(coro, stride):
    progs = gen.generate(0, 0, coro, exhaustive_l1=True)
    if stride > 1:
        progs = [p for i, p in enumerate(progs) if i % stride == 0]
    return progs


def random_programs(seed, n, coro, max_len=4):
    progs = gen.generate(seed, n, coro, max_len=max_len, exhaustive_l1=False)
    return progs


if __name__ == "__main__":
    variant = sys.argv[1] if len(sys.argv) > 1 else "plain20-O0"
    n = int(sys.argv[2]) if len(sys.argv) > 2 else 200
    stride = int(sys.argv[3]) if len(sys.argv) > 3 else 50
    coro = variant != "plain17"
    t0 = time.time()
    progs = l1_programs(coro, stride)
    r = random_programs(1, n, coro, int(os.environ.get("PG_MAX_LEN", "4")))
    base = max(p.id for p in progs) + 1 if progs else 0
    print("programs: %d exhaustive-L1 (stride %d), %d random" % (len(progs), stride, len(r)))
    for tag, ps in (("l1", progs), ("rnd", r)):
        b = build_binary(ps, variant, tag)
        print("built", b, "%.1fs" % (time.time() - t0))
        recs, crashes = run_binary(b)
        v, st = evaluate(ps, recs, crashes)
        print(json.dumps({k: vv for k, vv in st.items() if k != "samples"}))
        keys = {}
        for x in v:
            keys.setdefault(x["key"], []).append(x)
        for k, xs in sorted(keys.items(), key=lambda kv: -len(kv[1]))[:40]:
            print(len(xs), k, "\n     ", xs[0]["case"][:300], "\n     ", xs[0]["detail"][:300])
    print("%.1fs" % (time.time() - t0))
