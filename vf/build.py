"""Build layer: library variants and harness binaries, cached by content hash of /repo's working tree."""
import fcntl
import hashlib
import os
import shutil
import subprocess
import sys
import time

REPO = os.environ.get("VERIF_REPO", "/repo")
ROOT = os.path.dirname(os.path.dirname(os.path.abspath(__file__)))
BUILD = os.path.join(ROOT, "build")
HARNESS = os.path.join(ROOT, "harness")

UBSAN = "-fsanitize=undefined -fno-sanitize-recover=all"

# name -> (cxx std, YACLIB_FLAGS, YACLIB_FAULT, CMAKE_CXX_FLAGS, LOG)
VARIANTS = {
    "fib-asan": (20, "CORO;ASAN", "FIBER", "-O1 -g " + UBSAN + " -DYACLIB_VERIF", "DEBUG"),
    "fib-asan-nost": (20, "CORO;ASAN;DISABLE_SYMMETRIC_TRANSFER", "FIBER", "-O1 -g " + UBSAN + " -DYACLIB_VERIF", "DEBUG"),
    "fib-plain": (20, "CORO", "FIBER", "-O2 -g -DYACLIB_VERIF", "DEBUG"),
    "thr-tsan": (20, "CORO;TSAN", "THREAD", "-O1 -g", "DEBUG"),
    "thr-asan": (20, "CORO;ASAN", "THREAD", "-O1 -g " + UBSAN, "DEBUG"),
    "off-tsan": (20, "CORO;TSAN", "OFF", "-O1 -g", "DEBUG"),
    "plain17": (17, "", "OFF", "-O2", ""),
    "plain20": (20, "CORO", "OFF", "-O2", ""),
    "plain20-O0": (20, "CORO", "OFF", "-O0", ""),
    "asan20": (20, "CORO;ASAN", "OFF", "-O0 -g1", "DEBUG"),
}

# flags a harness TU needs to match its library variant
VARIANT_TU_FLAGS = {
    "fib-asan": "-std=c++20 -fcoroutines -O1 -g -fsanitize=address," + UBSAN[len("-fsanitize="):] + " -fno-omit-frame-pointer -DYACLIB_LOG_DEBUG -DYACLIB_VERIF",
    "fib-asan-nost": "-std=c++20 -fcoroutines -O1 -g -fsanitize=address," + UBSAN[len("-fsanitize="):] + " -fno-omit-frame-pointer -DYACLIB_LOG_DEBUG -DYACLIB_VERIF",
    "fib-plain": "-std=c++20 -fcoroutines -O2 -g -DYACLIB_LOG_DEBUG -DYACLIB_VERIF",
    "thr-tsan": "-std=c++20 -fcoroutines -O1 -g -fsanitize=thread -fno-omit-frame-pointer -DYACLIB_LOG_DEBUG",
    "thr-asan": "-std=c++20 -fcoroutines -O1 -g -fsanitize=address," + UBSAN[len("-fsanitize="):] + " -fno-omit-frame-pointer -DYACLIB_LOG_DEBUG",
    "off-tsan": "-std=c++20 -fcoroutines -O1 -g -fsanitize=thread -fno-omit-frame-pointer -DYACLIB_LOG_DEBUG",
    "plain17": "-std=c++17 -O2",
    "plain20": "-std=c++20 -fcoroutines -O2",
    "plain20-O0": "-std=c++20 -fcoroutines -O0",
    "asan20": "-std=c++20 -fcoroutines -O0 -g1 -fsanitize=address -fno-omit-frame-pointer -DYACLIB_LOG_DEBUG",
}


def _hash_paths(paths, extra=""):
    h = hashlib.sha256()
    h.update(extra.encode())
    for p in paths:
        if os.path.isdir(p):
            for d, dirs, files in sorted(os.walk(p)):
                dirs.sort()
                for f in sorted(files):
                    fp = os.path.join(d, f)
                    h.update(os.path.relpath(fp, p).encode())
                    with open(fp, "rb") as fh:
                        h.update(fh.read())
        elif os.path.exists(p):
            h.update(p.encode())
            with open(p, "rb") as fh:
                h.update(fh.read())
    return h.hexdigest()[:16]


_tree_hash = None


def tree_hash():
    global _tree_hash
    if _tree_hash is None:
        _tree_hash = _hash_paths([os.path.join(REPO, x) for x in ("include", "src", "cmake", "CMakeLists.txt")])
    return _tree_hash


class Lock:
    def __init__(self, path):
        self.path = path

    def __enter__(self):
        os.makedirs(os.path.dirname(self.path), exist_ok=True)
        self.fh = open(self.path, "w")
        fcntl.flock(self.fh, fcntl.LOCK_EX)
        return self

    def __exit__(self, *a):
        fcntl.flock(self.fh, fcntl.LOCK_UN)
        self.fh.close()


def _run(cmd, log, cwd=None):
    with open(log, "ab") as fh:
        fh.write(("$ " + (cmd if isinstance(cmd, str) else " ".join(cmd)) + "\n").encode())
        fh.flush()
        r = subprocess.run(cmd, shell=isinstance(cmd, str), cwd=cwd, stdout=fh, stderr=subprocess.STDOUT)
    return r.returncode


class BuildError(Exception):
    pass


def prune(keep_hash):
    """Remove cached builds that belong to other tree hashes (bounded disk use)."""
    if not os.path.isdir(BUILD):
        return
    for name in os.listdir(BUILD):
        if name.startswith("lib-") and not name.endswith(keep_hash) and not name.endswith(".lock"):
            p = os.path.join(BUILD, name)
            # keep the two most recent other hashes so that apply/undo of a patch does not thrash
            try:
                age = time.time() - os.path.getmtime(p)
            except OSError:
                continue
            if age > 6 * 3600:
                shutil.rmtree(p, ignore_errors=True)


def lib(variant):
    """Return the build dir of libyaclib for `variant`, building it from /repo's working tree if needed."""
    std, flags, fault, cxxflags, log = VARIANTS[variant]
    th = tree_hash()
    d = os.path.join(BUILD, "lib-%s-%s" % (variant, th))
    stamp = os.path.join(d, ".ok")
    if os.path.exists(stamp):
        os.utime(d)
        return d
    with Lock(d + ".lock"):
        if os.path.exists(stamp):
            return d
        shutil.rmtree(d, ignore_errors=True)
        os.makedirs(d)
        logf = os.path.join(d, "build.log")
        cmd = ["cmake", "-G", "Ninja", "-S", REPO, "-B", d, "-DCMAKE_BUILD_TYPE=RelWithDebInfo",
               "-DCMAKE_CXX_FLAGS=" + cxxflags, "-DCMAKE_CXX_FLAGS_RELWITHDEBINFO=",
               "-DYACLIB_CXX_STANDARD=%d" % std, "-DYACLIB_FLAGS=" + flags, "-DYACLIB_FAULT=" + fault]
        if log:
            cmd.append("-DYACLIB_LOG=" + log)
        if _run(cmd, logf) != 0 or _run(["cmake", "--build", d, "-j16"], logf) != 0:
            raise BuildError("library build failed for %s, see %s" % (variant, logf))
        open(stamp, "w").close()
        prune(th)
    return d


def harness_hash(sources, variant, extra):
    common = [os.path.join(HARNESS, f) for f in sorted(os.listdir(HARNESS)) if f.endswith(".hpp")]
    return _hash_paths(list(sources) + common, extra=variant + tree_hash() + extra + VARIANT_TU_FLAGS[variant])


def harness(name, variant, sources=None, extra=""):
    """Compile harness/<name>.cpp (or `sources`) against the library variant; return path to the binary."""
    if sources is None:
        sources = [os.path.join(HARNESS, name + ".cpp")]
    libdir = lib(variant)
    hh = harness_hash(sources, variant, extra)
    out = os.path.join(BUILD, "bin", "%s-%s-%s" % (name, variant, hh))
    if os.path.exists(out):
        os.utime(out)
        return out
    with Lock(out + ".lock"):
        if os.path.exists(out):
            return out
        os.makedirs(os.path.dirname(out), exist_ok=True)
        logf = out + ".log"
        cmd = ("g++ %s %s -I%s -I%s/include -I%s/include -I%s/src %s %s/src/libyaclib.a -lpthread -ldl -o %s.tmp" %
               (VARIANT_TU_FLAGS[variant], extra, HARNESS, REPO, libdir, REPO, " ".join(sources), libdir, out))
        if _run(cmd, logf) != 0:
            raise BuildError("harness build failed: %s (%s), see %s" % (name, variant, logf))
        os.rename(out + ".tmp", out)
        _prune_bins(name, variant, out)
    return out


def _prune_bins(name, variant, keep):
    d = os.path.dirname(keep)
    pre = "%s-%s-" % (name, variant)
    olds = [os.path.join(d, f) for f in os.listdir(d) if f.startswith(pre) and os.path.join(d, f) != keep and not f.endswith((".lock", ".log", ".tmp"))]
    olds.sort(key=lambda p: os.path.getmtime(p))
    for p in olds[:-2]:
        for q in (p, p + ".log", p + ".lock"):
            try:
                os.remove(q)
            except OSError:
                pass


if __name__ == "__main__":
    for v in sys.argv[1:]:
        t = time.time()
        print(v, lib(v), "%.1fs" % (time.time() - t))
