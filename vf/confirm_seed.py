"""Confirm a seeded change myself and file it under /verif/seeded/<id>/:
   python3 -m vf.confirm_seed <seed_out_dir> <id> <property> [--checks C01,C03]

In a scratch worktree of /repo HEAD (outside /repo and /verif):
  1. the patch applies and the library still builds; the repository's baseline test-suite (30 ctest targets) still passes;
  2. the demonstration fails with the change and passes without it;
  3. (optional) the registered checks are run against the change and the outcome is recorded.
Everything is logged into seeded/<id>/meta.json."""
import json
import os
import re
import shutil
import subprocess
import sys
import time

ROOT = os.path.dirname(os.path.dirname(os.path.abspath(__file__)))
SLOT = os.environ.get("CONFIRM_SLOT", "")   # several confirmations can run side by side, each with its own scratch dirs
WT = "/tmp/confirm_wt" + SLOT
BLD = "/tmp/confirm_bld" + SLOT


def sh(cmd, cwd=None, timeout=3600, env=None):
    try:
        p = subprocess.run(cmd, shell=True, cwd=cwd, stdout=subprocess.PIPE, stderr=subprocess.STDOUT, timeout=timeout, env=env)
        return p.returncode, p.stdout.decode(errors="replace")
    except subprocess.TimeoutExpired as e:
        return 124, (e.stdout or b"").decode(errors="replace") + "\nTIMEOUT"


def ensure_wt():
    head = subprocess.check_output(["git", "-C", "/repo", "rev-parse", "HEAD"]).decode().strip()
    if not os.path.isdir(WT):
        subprocess.check_call(["git", "-C", "/repo", "worktree", "add", "-q", "--detach", WT, head])
    else:
        sh("git checkout -q -- . && git clean -fdxq && git checkout -q --detach %s" % head, cwd=WT)
    return head


def baseline(log):
    if not os.path.exists(os.path.join(BLD, "build.ninja")):
        rc, out = sh("cmake -G Ninja -S %s -B %s -DCMAKE_BUILD_TYPE=RelWithDebInfo -DCMAKE_CXX_FLAGS=-Wno-error -DYACLIB_TEST=ON "
                     "-DFETCHCONTENT_SOURCE_DIR_GOOGLETEST=/usr/src/googletest -DFETCHCONTENT_TRY_FIND_PACKAGE_MODE=ALWAYS "
                     "-DFETCHCONTENT_UPDATES_DISCONNECTED=ON" % (WT, BLD))
        log.append(out[-400:])
        if rc != 0:
            return {"built": False, "detail": out[-1500:]}
    rc, out = sh("cmake --build %s -j6" % BLD)
    if rc != 0:
        return {"built": False, "detail": out[-1500:]}
    res = {"built": True, "runs": []}
    for attempt in range(2):
        rc, out = sh("ctest --test-dir %s -j6 --timeout 900" % BLD)
        m = re.search(r"(\d+)% tests passed, (\d+) tests failed out of (\d+)", out)
        failed = re.findall(r"^\s*\d+ - (\S+) \(", out, re.M)
        res["runs"].append({"exit": rc, "summary": m.group(0) if m else out[-300:], "failed": failed})
        if rc == 0:
            break
        # wall-clock sensitive tests flake on a loaded machine: re-run the failed targets alone
        ok_alone = True
        for t in failed:
            rc2, out2 = sh("ctest --test-dir %s -R '^%s$' --timeout 900" % (BLD, t))
            res["runs"][-1].setdefault("rerun_alone", {})[t] = rc2
            ok_alone = ok_alone and rc2 == 0
        if ok_alone:
            res["runs"][-1]["flake"] = True
            break
    res["passes"] = res["runs"][-1]["exit"] == 0 or res["runs"][-1].get("flake", False)
    return res


SIMPLE = False


def run_demo(demo_dir, label):
    """runs build.sh with SRC pointing at the scratch worktree; if the script only builds, runs the demo binary too"""
    if SIMPLE:
        # second-round demonstrations: build.sh <source tree> builds, runs and exits non-zero on failure
        rc, out = sh("bash ./build.sh %s" % WT, cwd=demo_dir, timeout=2400)
        return rc, out[-1800:], None
    env = dict(os.environ, SRC=WT, BUILD_DIR=os.path.join(demo_dir, "_b_" + label), OUT=os.path.join(demo_dir, "_o_" + label),
               WORK=os.path.join(demo_dir, "_w_" + label), LIB_DIR=os.path.join(demo_dir, "_l_" + label), BUILD=os.path.join(demo_dir, "_bb_" + label))
    script = open(os.path.join(demo_dir, "build.sh")).read()
    # scripts take the source tree either as $1 (then a work dir as $2) or only through SRC= and hand "$@" to the demo
    positional = re.search(r"\$\{?1[:}\-]", script) is not None and 'SRC=${SRC' not in script and 'SRC="${SRC' not in script
    args = "%s %s" % (WT, os.path.join(demo_dir, "_arg2_" + label)) if positional else ""
    if "MODE=${1" in script:
        args = ""
    rc, out = sh("bash ./build.sh %s" % args, cwd=demo_dir, timeout=1500, env=env)
    ran = None
    m = re.findall(r"built (\S+)", out)
    if rc == 0 and m and not re.search(r"\b(OK|FAIL|ok|PASS|violation)", out):
        exe = m[-1]
        if os.path.exists(exe):
            rc, out2 = sh(exe, cwd=demo_dir, timeout=900)
            out += "\n$ " + exe + "\n" + out2
            ran = exe
    return rc, out[-1800:], ran


def main(argv):
    global SIMPLE
    src, sid, prop = argv[1], argv[2], argv[3]
    SIMPLE = "--simple" in argv
    checks = []
    if "--checks" in argv:
        checks = argv[argv.index("--checks") + 1].split(",")
    dest = os.path.join(ROOT, "seeded", sid)
    os.makedirs(dest, exist_ok=True)
    for f in os.listdir(src):
        p = os.path.join(src, f)
        if os.path.isfile(p) and os.path.getsize(p) < 400000:
            shutil.copy(p, os.path.join(dest, f))
    meta = {"id": sid, "property": prop, "confirmed_at": time.strftime("%Y-%m-%d %H:%M:%S"), "log": []}
    notes = os.path.join(src, "notes.md")
    if os.path.exists(notes):
        txt = open(notes).read()
        meta["what_it_needs_to_manifest"] = txt[:1500]
    head = ensure_wt()
    meta["repo_head"] = head
    patch = os.path.join(dest, "patch.diff")
    rc, out = sh("git apply %s" % patch, cwd=WT)
    meta["patch_applies_to_head"] = rc == 0
    if rc != 0:
        meta["log"].append(out[-500:])
        json.dump(meta, open(os.path.join(dest, "meta.json"), "w"), indent=1)
        print(sid, "PATCH DOES NOT APPLY")
        return 1
    log = []
    meta["baseline_suite_with_change"] = baseline(log)
    demo_dir = "/tmp/confirm_demo_" + sid.replace("/", "_")
    shutil.rmtree(demo_dir, ignore_errors=True)
    shutil.copytree(src, demo_dir)
    rc_with, out_with, _ = run_demo(demo_dir, "with")
    sh("git checkout -q -- .", cwd=WT)
    rc_without, out_without, _ = run_demo(demo_dir, "without")
    shutil.rmtree(demo_dir, ignore_errors=True)
    sh("git clean -fdxq", cwd=WT)
    meta["demo"] = {"with_change": {"exit": rc_with, "tail": out_with[-700:]}, "without_change": {"exit": rc_without, "tail": out_without[-400:]},
                    "fails_with_and_passes_without": rc_with != 0 and rc_without == 0}
    meta["checks"] = {}
    for c in checks:
        env = dict(os.environ)
        rc, out = sh("python3 -m vf.seedtest %s %s" % (patch, c), cwd=ROOT, timeout=3600, env=env)
        keys = [l.strip() for l in out.splitlines() if l.strip().startswith("key=")]
        m = re.search(r"exit=(\d+) violations=(\d+)", out)
        meta["checks"][c] = {"quick_exit": int(m.group(1)) if m else None, "violations": int(m.group(2)) if m else None,
                             "keys": sorted({re.sub(r" occurrences.*", "", k) for k in keys})[:8]}
    ok = meta["baseline_suite_with_change"].get("passes") and meta["demo"]["fails_with_and_passes_without"]
    meta["kept"] = bool(ok)
    json.dump(meta, open(os.path.join(dest, "meta.json"), "w"), indent=1)
    print(sid, "baseline:", meta["baseline_suite_with_change"].get("passes"), "demo with/without:", rc_with, rc_without,
          "checks:", {c: v["quick_exit"] for c, v in meta["checks"].items()})
    return 0


if __name__ == "__main__":
    sys.exit(main(sys.argv))
