"""Check driver: runs the engines planned for a property, applies known-findings matching, writes evidence."""
import json
import os
import re
import subprocess
import sys
import time

from . import build

ROOT = build.ROOT
EVID = os.environ.get("VERIF_EVIDENCE_DIR", os.path.join(ROOT, "evidence"))
REPLAYS = os.environ.get("VERIF_REPLAY_DIR", os.path.join(ROOT, "replays"))
LOGS = os.path.join(build.BUILD, "logs")
KNOWN = os.path.join(ROOT, "known_findings.json")


def load_known():
    if not os.path.exists(KNOWN):
        return []
    with open(KNOWN) as fh:
        return json.load(fh).get("findings", [])


class Finding:
    """One observed violation (after de-duplication by key)."""

    def __init__(self, prop, key, case, detail, engine, variant, count=1, replay_extra=None):
        self.prop = prop
        self.key = key
        self.case = case
        self.detail = detail
        self.engine = engine
        self.variant = variant
        self.count = count
        self.replay_extra = replay_extra or {}


class RunResult:
    def __init__(self):
        self.evaluations = 0
        self.distinct_nontrivial = 0
        self.distinct = 0
        self.nontrivial = 0
        self.checks = 0
        self.cells = []          # per cell dicts
        self.samples = []
        self.findings = []       # Finding
        self.other = []          # findings that belong to other properties (reported, not verdicts)
        self.inconclusive = 0
        self.notes = []
        self.sites = {}
        self.harness_error = None
        self.wall = 0.0
        self.engines = []
        self.hb_checks = 0       # plain accesses checked by the happens-before monitor (fiber engines)
        self.hb_syncs = 0


def _sanitize(s):
    return re.sub(r"[^A-Za-z0-9_.=-]+", "_", s)[:120]


def run_family(res, prop, family, variant, cases, seed, tier, cells=None, extra_args=None, propfilter=True, hang=None,
               budget=None):
    """Run harness/<family>.cpp built for `variant`; merge its summary into res."""
    try:
        binary = build.harness(family, variant)
    except build.BuildError as e:
        res.harness_error = str(e)
        return
    os.makedirs(LOGS, exist_ok=True)
    out = os.path.join(LOGS, "%s-%s-%s-%d.jsonl" % (prop, family, variant, os.getpid()))
    cmd = [binary, "--cases", str(cases), "--seed", str(seed), "--jobs", str(min(16, os.cpu_count() or 1)),
           "--logdir", LOGS, "--out", out]
    if hang:
        cmd += ["--hang", str(hang)]
    if propfilter:
        cmd += ["--prop", prop]
    if cells:
        cmd += ["--cells", cells]
    if budget:
        cmd += ["--budget", str(budget)]
    if extra_args:
        cmd += extra_args
    env = dict(os.environ)
    t0 = time.time()
    p = subprocess.run(cmd, env=env, stdout=subprocess.PIPE, stderr=subprocess.STDOUT)
    wall = time.time() - t0
    res.wall += wall
    if p.returncode != 0 or not os.path.exists(out):
        res.harness_error = "harness %s/%s exited %d: %s" % (family, variant, p.returncode, p.stdout.decode(errors="replace")[-2000:])
        return
    summary = None
    viols = []
    with open(out) as fh:
        for line in fh:
            line = line.strip()
            if not line:
                continue
            d = json.loads(line)
            if d["t"] == "summary":
                summary = d
            elif d["t"] == "viol":
                viols.append(d)
    os.remove(out)
    if summary is None:
        res.harness_error = "harness %s/%s wrote no summary" % (family, variant)
        return
    eng = {"family": family, "variant": variant, "mode": summary["mode"], "sanitizer": summary["sanitizer"],
           "cases": 0, "wall_s": round(wall, 2), "complete": summary["complete"]}
    if summary["mode"] == "fiber":
        # what the happens-before monitor saw on these schedules
        eng["hb_sync_events"] = summary.get("hb_sync_events", 0)
        eng["hb_plain_accesses_checked"] = summary.get("hb_plain_accesses_checked", 0)
        eng["hb_cases_given_up"] = summary.get("hb_cases_given_up", 0)
        res.hb_checks += eng["hb_plain_accesses_checked"]
        res.hb_syncs += eng["hb_sync_events"]
    else:
        eng["tsan_reports"] = summary.get("tsan_reports", 0)
    for c in summary["cells"]:
        res.evaluations += c["cases"]
        res.distinct += c["distinct"]
        res.distinct_nontrivial += c["distinct_nontrivial"]
        res.nontrivial += c["nontrivial"]
        res.checks += c["checks"]
        eng["cases"] += c["cases"]
        res.cells.append({"engine": family + "/" + variant, "cell": c["cell"], "cases": c["cases"],
                          "nontrivial": c["nontrivial"], "distinct": c["distinct"],
                          "distinct_nontrivial": c["distinct_nontrivial"], "oracle_checks": c["checks"],
                          "fiber_switches": c["switches"], "classes": c["classes"]})
        for s in c["samples"][:1]:
            if len(res.samples) < 24:
                res.samples.append({"engine": family + "/" + variant, "case": s})
    res.engines.append(eng)
    res.inconclusive += summary["inconclusive"]
    if not summary["complete"]:
        res.notes.append("%s/%s: run incomplete (too many aborted batches)" % (family, variant))
    if summary.get("set_saturated"):
        res.notes.append("%s/%s: distinct-signature set saturated, distinct counts are lower bounds" % (family, variant))
    for k, v in summary.get("lib_assert_sites", {}).items():
        res.sites[k] = res.sites.get(k, 0) + v
    # de-duplicate by key
    bykey = {}
    for v in viols:
        k = v["key"]
        if k in bykey:
            bykey[k].count += 1
            continue
        m = re.search(r"cell=(\S+) idx=(\d+) seed=(\d+)", v["case"])
        extra = {"family": family, "variant": variant, "cell": m.group(1) if m else "", "idx": int(m.group(2)) if m else 0,
                 "seed": int(m.group(3)) if m else seed}
        props = [x for x in v["props"].split(",") if x]
        f = Finding(prop, k, v["case"], v["detail"], family, variant, 1, extra)
        f.props = props
        bykey[k] = f
    for f in bykey.values():
        if f.key.endswith(":hang"):
            # a watchdog hit is inconclusive unless it repeats on a re-run of the same case
            again = replay_case(f.replay_extra, timeout=(hang or 30) + 30)
            if again == "hang":
                res.findings.append(f)
            else:
                res.inconclusive += 1
                res.notes.append("watchdog fired once for %s and did not repeat (re-run verdict: %s)" % (f.case, again))
            continue
        if f.key.endswith(":resume-budget"):
            # fiber case that exceeded its resume budget: deterministic, so re-run it with ten times the budget; a
            # scenario of a few fibers that does not finish within 20 million resumes makes no progress (livelock,
            # e.g. spinning on a lock its own call stack holds); otherwise it was merely slow -> inconclusive
            again = replay_case(f.replay_extra, timeout=900, more_args=["--budget", "20000000"])
            if again in ("budget", "hang"):
                f.key = f.key[:-len("resume-budget")] + "livelock"
                f.detail = ("the scenario does not finish on this (deterministic) fiber schedule: still running after 20,000,000 "
                            "fiber resumes (typical cases need a few thousand). " + f.detail)
            else:
                res.notes.append("resume budget exceeded once for %s, finished with a larger budget (%s)" % (f.case, again))
                continue
        if prop in f.props or not f.props:
            res.findings.append(f)
        else:
            res.other.append(f)


def replay_case(extra, timeout=120, verbose=False, more_args=None):
    try:
        binary = build.harness(extra["family"], extra["variant"])
    except build.BuildError as e:
        return "build-error: %s" % e
    cmd = [binary, "--one", extra["cell"], str(extra["idx"]), "--seed", str(extra["seed"])] + list(more_args or [])
    try:
        p = subprocess.run(cmd, stdout=subprocess.PIPE, stderr=subprocess.STDOUT, timeout=timeout)
    except subprocess.TimeoutExpired:
        return "hang"
    if verbose:
        sys.stdout.write(p.stdout.decode(errors="replace"))
    if p.returncode == 0:
        return "held"
    if p.returncode == 78:
        return "budget"
    return "violated(exit %d)" % p.returncode


def write_replay(prop, f):
    d = os.path.join(REPLAYS, prop)
    os.makedirs(d, exist_ok=True)
    base = _sanitize(f.key)
    path = os.path.join(d, base + ".json")
    with open(path, "w") as fh:
        json.dump({"property": prop, "key": f.key, "engine": f.engine, "variant": f.variant, "case": f.case,
                   "detail": f.detail, "occurrences_this_run": f.count, "replay": f.replay_extra,
                   "how": "./check replay " + os.path.relpath(path, ROOT)}, fh, indent=1)
    return path


def finish(prop, tier, seed, level, res, rule, assumptions, min_distinct=2, extra_cov=None, t_start=None):
    """Known-findings matching, evidence, verdict lines; returns exit code."""
    known = [k for k in load_known() if k.get("property") == prop]
    open_keys = {k["key"]: k for k in known if k.get("status") == "open"}
    violations = 0
    known_hit = []
    lines = []
    for f in res.findings:
        if f.key in open_keys:
            known_hit.append(f.key)
            lines.append("KNOWN-FINDING: property=%s %s [%s] (%d occurrences this run)" %
                         (prop, open_keys[f.key].get("what", ""), f.key, f.count))
        else:
            path = write_replay(prop, f)
            violations += 1
            lines.append("VIOLATION property=%s replay=%s" % (prop, path))
            lines.append("  key=%s occurrences=%d case: %s" % (f.key, f.count, f.case))
            lines.append("  detail: %s" % f.detail.replace("\n", "\n    ")[:1500])
    for f in res.other:
        lines.append("OBSERVED (belongs to %s, not a verdict for %s): %s  case: %s" % ("/".join(f.props), prop, f.key, f.case))
    for k, v in open_keys.items():
        if k not in known_hit and v.get("deterministic"):
            lines.append("NOTE: open known finding %s was not reproduced in this run" % k)
    wall = time.time() - t_start if t_start else res.wall
    cov = {
        "evaluations": res.evaluations,
        "distinct_nontrivial": res.distinct_nontrivial,
        "rule": rule,
        "samples": res.samples[:16],
        "distinct_signatures": res.distinct,
        "nontrivial_cases": res.nontrivial,
        "oracle_checks_evaluated": res.checks,
        "engines": res.engines,
        "per_cell": res.cells,
        "library_assertion_sites_seen": res.sites,
        "inconclusive_cases": res.inconclusive,
        "happens_before_monitor": {"sync_events_observed": res.hb_syncs, "plain_accesses_checked": res.hb_checks},
        "known_findings_reproduced": sorted(set(known_hit)),
        "other_property_observations": [f.key for f in res.other],
        "notes": res.notes,
    }
    if extra_cov:
        cov.update(extra_cov)
    ev = {"property_id": prop, "tier": tier, "seed": seed, "level": level, "coverage": cov,
          "assumptions": assumptions, "wall_s": round(wall, 2), "violations": violations}
    os.makedirs(EVID, exist_ok=True)
    code = 0
    if res.harness_error:
        lines.append("HARNESS-ERROR: %s" % res.harness_error)
        code = 2
    elif violations:
        code = 1
    elif res.evaluations == 0 or res.distinct_nontrivial < min_distinct:
        lines.append("INCONCLUSIVE: only %d distinct non-trivial cases observed (minimum %d)" % (res.distinct_nontrivial, min_distinct))
        code = 2
    if code != 2 or res.evaluations > 0:
        with open(os.path.join(EVID, prop + ".json"), "w") as fh:
            json.dump(ev, fh, indent=1)
    for l in lines:
        print(l)
    verdict = {0: "HELD on everything explored", 1: "VIOLATED", 2: "INCONCLUSIVE / harness failure"}[code]
    print("%s %s tier=%s seed=%d: %s — %d cases, %d distinct non-trivial, %d oracle checks, %.1f s" %
          (prop, verdict, tier, seed, "", res.evaluations, res.distinct_nontrivial, res.checks, wall))
    return code
