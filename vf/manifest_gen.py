"""Regenerates MANIFEST.json from the registered plans (run: python3 -m vf.manifest_gen)."""
import json
import os

from . import plans

ROOT = os.path.dirname(os.path.dirname(os.path.abspath(__file__)))

META = {
    "C01": dict(engine="fiberx+rt", technique="runtime monitoring: seeded fiber-schedule exploration with exactly-once/digest/canary/logical-clock monitors under ASan+UBSan; real-thread passes under TSan/ASan",
                text="Held on the executions explored: every consumer kind x producer kind x payload kind under tens of thousands (quick) to millions (thorough) of distinct fiber interleavings at yaclib_std-operation granularity, plus real-thread passes. Sampling, not enumeration; the evidence lists distinct interleavings actually seen per cell.",
                note="Trusts the fiber scheduler to pre-empt at every yaclib_std operation, gcc sanitizers, and the monitors in harness/fam_core.cpp; schedules are sampled.", ref="DESIGN.md §3 C01"),
}

ALL = ["C%02d" % i for i in range(1, 21)]


def main():
    checks = []
    for pid in ALL:
        if pid in plans.PLANS and pid in META:
            m = META[pid]
            checks.append({
                "property_id": pid,
                "quick_cmd": "./check %s --tier quick" % pid,
                "thorough_cmd": "./check %s --tier thorough" % pid,
                "evidence_file": "/verif/evidence/%s.json" % pid,
                "replay_cmd_template": "./check replay {path}",
                "engine": m["engine"],
                "level_claimed": {"category": m.get("category", "exploration"), "text": m["text"], "design_ref": m["ref"]},
                "level_note": m["note"],
                "technique": m["technique"],
            })
    na = [{"property_id": p, "reason": "check not built yet (work in progress; see DESIGN.md §3 for the planned monitor)"}
          for p in ALL if p not in plans.PLANS or p not in META]
    man = {
        "version": 1,
        "setup_cmd": "./check setup",
        "hooks": {
            "guard": "YACLIB_VERIF",
            "enable": "-DYACLIB_VERIF in CMAKE_CXX_FLAGS of the /verif fiber build variants (vf/build.py) and in the harness TU flags",
            "baseline_off_cmd": "cmake --build /repo/_build && ctest --test-dir /repo/_build -j8 --timeout 900",
            "source_commits": ["9cac042"],
            "add_only": True,
        },
        "engines": [
            {"name": "fiberx", "path": "harness/", "serves_properties": sorted(plans.PLANS), "kind_free_text": "fiber-schedule explorer with runtime monitors (ASan+UBSan)"},
        ],
        "checks": checks,
        "notes": "Runtime monitoring and sanitizers only. See DESIGN.md.",
        "not_applicable": na,
    }
    with open(os.path.join(ROOT, "MANIFEST.json"), "w") as fh:
        json.dump(man, fh, indent=1)
        fh.write("\n")


if __name__ == "__main__":
    main()
