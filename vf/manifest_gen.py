"""Regenerates MANIFEST.json from the registered plans (run: python3 -m vf.manifest_gen)."""
import json
import os

from . import plans

ROOT = os.path.dirname(os.path.dirname(os.path.abspath(__file__)))

META = {
    "C01": dict(engine="fiberx+rt", technique="runtime monitoring: seeded fiber-schedule exploration with exactly-once/digest/canary/logical-clock monitors under ASan+UBSan; real-thread passes under TSan/ASan",
                text="Held on the executions explored: every consumer kind x producer kind x payload kind under tens of thousands (quick) to millions (thorough) of distinct fiber interleavings at yaclib_std-operation granularity, plus real-thread passes. Sampling, not enumeration; the evidence lists distinct interleavings actually seen per cell.",
                note="Trusts the fiber scheduler to pre-empt at every yaclib_std operation, gcc sanitizers, and the monitors in harness/fam_core.cpp; schedules are sampled.", ref="DESIGN.md §3 C01"),
    "C06": dict(engine="fiberx+rt", technique="runtime monitoring: fiber-schedule exploration of random observer-operation sequences on SharedFuture copies with per-observer exactly-once, canary/moved-from and Ready-implies-readable monitors (ASan+UBSan); real-thread passes under TSan/ASan",
                text="Held on the executions explored: 2-4 observer threads running random sequences of 14 observer operations against one fulfilling thread, plus shared inputs of When*/Wait; sampled schedules, counts in evidence.",
                note="Trusts the monitors in harness/fam_shared.cpp (values identify the write they observed), gcc sanitizers and the fiber scheduler's pre-emption points.", ref="DESIGN.md §3 C06"),
    "C07": dict(engine="fiberx+rt", technique="runtime monitoring: overlap counter, per-submitter sequence and took-effect order checks, Call/Drop conservation and deadlock detection over seeded fiber schedules (ASan+UBSan); plain-counter happens-before check under TSan",
                text="Held on the executions explored: 1-4 submitters x 1-5 jobs (+ re-entrant submissions) on strands over pool(1-3)/manual/inline/stopped executors and strand-over-strand, with Stop/SoftStop/HardStop at random points.",
                note="Trusts harness/fam_exec.cpp monitors and sanitizers; schedules are sampled.", ref="DESIGN.md §3 C07"),
    "C08": dict(engine="fiberx+rt", technique="runtime monitoring: Call/Drop conservation against client-visible stop order (interval rule), no-Call-after-Wait flag, single-worker FIFO check, deadlock detection over seeded fiber schedules; TSan/ASan real-thread passes",
                text="Held on the executions explored: submitters x workers(1-3) x Stop/SoftStop/HardStop at random moments followed by Wait.",
                note="Trusts harness/fam_exec.cpp monitors and sanitizers; schedules are sampled.", ref="DESIGN.md §3 C08"),
    "C09": dict(engine="fiberx+rt", technique="runtime monitoring: logical-clock interval oracle for which/when, per-index value check, exactly-once output, tracked release (ASan+UBSan) over seeded fiber schedules; TSan/ASan real-thread passes",
                text="Held on the executions explored: WhenAll/Join in dynamic, static, mixed and tuple forms x FailPolicy None/FirstFail x 1-4 inputs completing before/during/after registration.",
                note="Interval rule never orders overlapping calls (weakest sound oracle); trusts harness/fam_when.cpp and sanitizers.", ref="DESIGN.md §3 C09/C10"),
    "C10": dict(engine="fiberx+rt", technique="runtime monitoring: per-policy winner rule over logical-clock intervals, exactly-once output, tracked release (ASan+UBSan) over seeded fiber schedules; TSan/ASan real-thread passes",
                text="Held on the executions explored: WhenAny dynamic/static/mixed x None/FirstFail/LastFail x 1-4 inputs x every success/failure pattern.",
                note="Interval rule never orders overlapping calls; trusts harness/fam_when.cpp and sanitizers.", ref="DESIGN.md §3 C09/C10"),
    "C11": dict(engine="fiberx+rt", technique="runtime monitoring: return value vs readiness vs virtual deadline, exactly-once delivery after the wait, instrumented Event (touch-after-return registry) and ASan stack-use-after-return over seeded fiber schedules in virtual time",
                text="Held on the executions explored: Wait/WaitFor/WaitUntil in single, variadic and iterator forms, unique/shared/mixed, deadlines before/between/after completions; every future consumed afterwards by a random consumer kind.",
                note="Virtual time of the fiber scheduler; real-thread pass uses wall-clock only for deadlines (>=), never for verdicts on speed.", ref="DESIGN.md §3 C11"),
    "C16": dict(engine="fiberx+rt", technique="runtime monitoring: done_begun==total at every release, release counter per waiter, attached-future Ready sampler, deadlock detection, ASan on TimedWaiter, executor tag after coroutine resumption",
                text="Held on the executions explored: WaitGroup{1} guard pattern with Done threads, attached/consumed futures, blocking/timed/coroutine waiters (inline, sticky, on-executor) registering at random moments; OneShotEvent Set/Call/TryAdd/Wait directly.",
                note="Trusts harness/fam_wg.cpp; Add only while count is non-zero as documented.", ref="DESIGN.md §3 C16"),
    "C18": dict(engine="fiberx", technique="runtime monitoring: confirmed/maybe holder shadow state, justified-failure rule, virtual-clock deadline check, deadlock detection over seeded fiber schedules",
                text="Held on the executions explored: 2-5 fibers x random op sequences on each of the six lock types; condition_variable wait/wait_for/wait_until with and without predicate against notify_one/all; thread join and per-fiber thread-local pointers.",
                note="Fiber backend only (the THREAD backend wraps the real std types).", ref="DESIGN.md §3 C18"),
    "C19": dict(engine="atomdiff", technique="runtime monitoring: lock-step differential execution against std::atomic (reference model) with UBSan, random sequences + exhaustive 8-bit single operations + spurious-failure contract, FIBER and THREAD backends",
                text="Held on the executions explored: every operation C19 lists x T in {bool, (u)int8..64, int*, float, double} x boundary/random operands x random memory orders; the 8-bit single-operation space is enumerated completely.",
                note="std::atomic of libstdc++ is the trusted reference; NaN results of arithmetic compare equal regardless of sign/payload.", ref="DESIGN.md §3 C19"),
    "C13": dict(engine="fiberx+rt", technique="runtime monitoring: per-await resume counter, awaited-really-complete check (producer stamp + canary), executor tag after resumption, coroutine Result check, tracked frame locals, deadlock detection; with and without symmetric transfer; TSan/ASan real-thread passes",
                text="Held on the executions explored: Future/Task/SharedFuture coroutines x 11 awaitable forms x ready/racing/late sources x value/error/exception x unique/shared x live/stopped target executor.",
                note="'The coroutine's own executor' is what co_await CurrentExecutor() reports before the await (see DESIGN note N5).", ref="DESIGN.md §3 C13"),
    "C14": dict(engine="fiberx+rt", technique="runtime monitoring: overlap counter, grant counter, FIFO grant-order check on one worker, executor tag after UnlockOn/sticky Unlock, plain-variable happens-before check (TSan), deadlock detection; all four option combinations, with and without symmetric transfer",
                text="Held on the executions explored: 2-5 coroutines x 1-3 rounds x 6 locking forms x 4 unlocking forms on 1-3 workers.",
                note="Executors keep accepting work until every coroutine finished.", ref="DESIGN.md §3 C14/C15"),
    "C15": dict(engine="fiberx+rt", technique="runtime monitoring: reader/writer overlap counters, grant counter, both-modes-free-at-end check, deadlock detection; all four option combinations, with and without symmetric transfer; TSan/ASan real-thread passes",
                text="Held on the executions explored: 2-6 reader/writer coroutines x 1-3 rounds x 8 locking forms on 1-3 workers.",
                note="Executors keep accepting work until every coroutine finished.", ref="DESIGN.md §3 C14/C15"),
    "C17": dict(engine="repro", technique="runtime monitoring: record/compare of complete fiber-switch traces (YACLIB_VERIF resume hook), client event logs, random-draw and injected-yield counts across re-runs, process boundaries (exec, ASLR, perturbed heap, wall-clock noise) and checkpoint/restore",
                text="Held on the executions explored: 5 client programs x thousands of (seed, frequency, pick width, tick, CAS-fail frequency) configurations, three comparison kinds each.",
                note="Anything that does not alter the resume sequence, virtual time, draw counts or client events is invisible to the comparison.", ref="DESIGN.md §3 C17"),
    "C02": dict(engine="pipegen", technique="runtime monitoring against an executable reference model: generated pipeline programs (source x attach x signature x return kind incl. inner Future/SharedFuture/Task), callback log + final Result compared with a sequential interpreter",
                text="Held on the programs explored: a stride sample (quick) / all (thorough) of the complete length-1 space plus hundreds to thousands of random pipelines of length 1-4, eager and lazy, C++20 and C++17.",
                note="The interpreter in pipegen/gen.py is the trusted model of the documented routing rules; execution is single-threaded and deterministic.", ref="DESIGN.md §3 C02", category="exploration"),
    "C05": dict(engine="pipegen+fiberx+rt", technique="runtime monitoring with fault enumeration: every generated pipeline is re-run for every rejection point k (k-th Submit dropped, from k on / only k) and compared with the interpreter (executor tag, Submit count, StopError routing); instrumented jobs with Call/Drop conservation over fiber schedules with a stopping thread",
                text="Held on everything explored: rejection points are enumerated completely per program; Stop-vs-Submit interleavings are sampled.",
                note="Executor identity is observed through a per-fiber/thread tag set by instrumented executors.", ref="DESIGN.md §3 C05", category="fault_enumeration"),
    "C12": dict(engine="pipegen+fiberx", technique="runtime monitoring against the reference interpreter in lazy mode: 'started' flag logged by every callback, all start kinds and abandonment, eager-twin comparison, tracked functor release; fiber coroutine cells for co_await/Await starts",
                text="Held on the programs explored (lazy half of the pipegen space, every start kind, drop at the end of every generated prefix).",
                note="Cancellation semantics follow the C02 rules: the head sees StopError, recovery callbacks may recover.", ref="DESIGN.md §3 C12"),
    "C20": dict(engine="pipegen+alloccount", technique="runtime monitoring: global operator new counter between two points of single-threaded runs; per-program step budget from the interpreter; allocation tables over input counts",
                text="Held on everything measured: allocations <= steps for every generated pipeline; constant count per combinator/policy/form for n=2..64; zero for waits, Get, Strand submission, co_await.",
                note="Counts are taken at -O0 (upper bound) and -O2, C++20 and C++17.", ref="DESIGN.md §3 C20"),
    "C03": dict(engine="fiberx+pipegen+rt", technique="runtime monitoring: tracked-object registry (canary, live count), ASan/UBSan/LSan, operator new/delete balance at quiescence with deterministic re-run confirmation, over all fiber scenario families; complete k-th-Submit rejection enumeration on generated pipelines under ASan; real-thread ASan pass",
                text="Held on everything explored: every scenario family (handles dropped at every stage the scenarios reach, throwing callbacks, combinators, Stop/HardStop with queued steps, coroutines on stopped executors) ends with the three lifecycle oracles; rejection points are enumerated completely per generated program.",
                note="ASan red zones/quarantine limits apply; fiber stack pool and scheduler containers are excluded by the repeat-run rule.", ref="DESIGN.md §3 C03", category="fault_enumeration"),
    "C04": dict(engine="rt (TSan) + hbmon (fiber)", technique="ThreadSanitizer (gcc, __tsan_on_report) on real threads with injected delays at every synchronisation point, plain payloads whose only ordering edge is the library, relaxed-atomic monitors; plus a happens-before monitor (vector clocks applying the C++ synchronizes-with rules to the YACLIB_VERIF synchronization trace: every atomic operation with its memory order, fences, mutexes, thread start/join) that checks the annotated payload words on seeded fiber schedules",
                text="Held on the executions observed: all eight scenario families (future/promise hand-off, executors, strand, pool, combinators, waits, SharedFuture, WaitGroup, coroutine Mutex/SharedMutex, coroutines) under TSan on real threads (thousands to hundreds of thousands of cases) and under the happens-before monitor on fiber schedules (hundreds of thousands to millions of cases; evidence lists synchronization events seen and plain accesses checked).",
                note="No happens-before race on observed executions (x86 threads; SC fiber schedules judged by the C++ happens-before rules); not a proof for non-SC outcomes of the atomics themselves. The monitor checks annotated payload words only and over-approximates ordering where the standard leaves a choice.", ref="DESIGN.md §2.7, §3 C04"),
}

ALL = ["C%02d" % i for i in range(1, 21)]


def main():
    checks = []
    for pid in ALL:
        if pid in plans.PLANS and pid in META:
            m = META[pid]
            checks.append({
                "property_id": pid,
                "quick_cmd": "./check %s --tier quick" % pid,
                "thorough_cmd": "./check %s --tier thorough" % pid,
                "evidence_file": "/verif/evidence/%s.json" % pid,
                "replay_cmd_template": "./check replay {path}",
                "engine": m["engine"],
                "level_claimed": {"category": m.get("category", "exploration"), "text": m["text"], "design_ref": m["ref"]},
                "level_note": m["note"],
                "technique": m["technique"],
            })
    na = [{"property_id": p, "reason": "check not built yet (work in progress; see DESIGN.md §3 for the planned monitor)"}
          for p in ALL if p not in plans.PLANS or p not in META]
    man = {
        "version": 1,
        "setup_cmd": "./check setup",
        "hooks": {
            "guard": "YACLIB_VERIF",
            "enable": "-DYACLIB_VERIF in CMAKE_CXX_FLAGS of the /verif fiber build variants (vf/build.py) and in the harness TU flags",
            "baseline_off_cmd": "cmake --build /repo/_build && ctest --test-dir /repo/_build -j8 --timeout 900",
            "source_commits": ["9cac042", "5873f77"],
            "add_only": True,
        },
        "engines": [
            {"name": "fiberx", "path": "harness/", "serves_properties": sorted(plans.PLANS), "kind_free_text": "fiber-schedule explorer with runtime monitors (ASan+UBSan), real-thread passes under TSan/ASan"},
            {"name": "hbmon", "path": "harness/vf_hb.hpp", "serves_properties": ["C01", "C04", "C06", "C07", "C11", "C13", "C14", "C15", "C16"], "kind_free_text": "happens-before monitor (vector clocks over the YACLIB_VERIF synchronization trace) on fiber schedules"},
            {"name": "pipegen", "path": "pipegen/", "serves_properties": ["C02", "C03", "C05", "C12", "C20"], "kind_free_text": "generated pipeline programs checked against a sequential reference interpreter, complete k-th-Submit rejection enumeration"},
        ],
        "checks": checks,
        "notes": "Runtime monitoring and sanitizers only. See DESIGN.md.",
        "not_applicable": na,
    }
    with open(os.path.join(ROOT, "MANIFEST.json"), "w") as fh:
        json.dump(man, fh, indent=1)
        fh.write("\n")


if __name__ == "__main__":
    main()
