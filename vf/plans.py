"""Per-property plans: which engines run, with what budgets, and how the evidence is described."""
import time

from . import driver

FIBER_RULE = ("cases = (cell, index) pairs; every scheduler parameter (seed, yield frequency, pick width, CAS-fail frequency, "
              "initial injector state) and every scenario choice is drawn from splitmix(VERIF_SEED, family, cell, index). "
              "distinct = distinct (cell, interleaving signature) where the signature is a rolling hash of the sequence of "
              "resumed fibers reported by the YACLIB_VERIF resume hook, combined with the client-visible observation hash; "
              "non-trivial = %s. Thread-mode engines (no hook) use the observation hash only.")

ASSUME_FIBER = [
    "the fiber backend pre-empts only at yaclib_std operations (atomics, mutexes, condition variables, sleeps, yields)",
    "schedules are sampled (seeded random choice), not enumerated: 'held' means held on the executions listed under coverage",
    "sanitizers: gcc 12 ASan+UBSan (red zones / quarantine limits apply), LeakSanitizer at batch end",
]


class Step:
    def __init__(self, family, variant, quick, thorough, cells=None, propfilter=True, hang=60, extra=None, budget=None):
        self.family, self.variant, self.quick, self.thorough = family, variant, quick, thorough
        self.cells, self.propfilter, self.hang, self.extra, self.budget = cells, propfilter, hang, extra, budget


def run_steps(prop, tier, seed, steps, nontrivial_rule, level="exploration", assumptions=None, min_distinct=50, extra_cov=None):
    t0 = time.time()
    res = driver.RunResult()
    for s in steps:
        n = s.quick if tier == "quick" else s.thorough
        if n <= 0:
            continue
        driver.run_family(res, prop, s.family, s.variant, n, seed, tier, cells=s.cells, extra_args=s.extra,
                          propfilter=s.propfilter, hang=s.hang, budget=s.budget)
        if res.harness_error:
            break
    return driver.finish(prop, tier, seed, level, res, FIBER_RULE % nontrivial_rule, assumptions or ASSUME_FIBER,
                         min_distinct=min_distinct, extra_cov=extra_cov, t_start=t0)


def c01(tier, seed):
    steps = [
        Step("fam_core", "fib-asan", 120000, 4000000),
        Step("fam_core", "thr-tsan", 3000, 60000, hang=120),
        Step("fam_core", "thr-asan", 0, 60000, hang=120),
    ]
    return run_steps("C01", tier, seed, steps,
                     "the producer's fulfil call and the consumer's consume call overlapped in logical time "
                     "(neither returned before the other began)")


PLANS = {
    "C01": c01,
}
