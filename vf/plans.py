"""Per-property plans: which engines run, with what budgets, and how the evidence is described."""
import time

from . import driver

FIBER_RULE = ("cases = (cell, index) pairs; every scheduler parameter (seed, yield frequency, pick width, CAS-fail frequency, "
              "initial injector state) and every scenario choice is drawn from splitmix(VERIF_SEED, family, cell, index). "
              "distinct = distinct (cell, interleaving signature) where the signature is a rolling hash of the sequence of "
              "resumed fibers reported by the YACLIB_VERIF resume hook, combined with the client-visible observation hash; "
              "non-trivial = %s. Thread-mode engines (no hook) use the observation hash only.")

ASSUME_FIBER = [
    "the fiber backend pre-empts only at yaclib_std operations (atomics, mutexes, condition variables, sleeps, yields)",
    "schedules are sampled (seeded random choice), not enumerated: 'held' means held on the executions listed under coverage",
    "sanitizers: gcc 12 ASan+UBSan (red zones / quarantine limits apply), LeakSanitizer at batch end",
]


LONG_MAX_LEN = 8


def pipegen_step(res, prop, tier, seed, variant, stride, nrandom, enumerate_k=True):
    """run generated pipeline programs against the reference interpreter and merge the outcome into res"""
    import os
    import sys
    sys.path.insert(0, driver.ROOT)
    from pipegen import run as pgrun
    from vf import build
    coro = variant != "plain17"
    t0 = time.time()
    try:
        sets = []
        if stride > 0:
            sets.append(("l1", pgrun.l1_programs(coro, stride)))
        if nrandom > 0:
            sets.append(("rnd", pgrun.random_programs(seed, nrandom, coro)))
        if nrandom > 0 and tier == "thorough":
            # deeper bound: chains of up to LONG_MAX_LEN steps (the quick tier and the "rnd" set stop at 4)
            sets.append(("long", pgrun.random_programs(seed + 7919, max(300, nrandom // 3), coro, LONG_MAX_LEN)))
        for tag, progs in sets:
            binary = pgrun.build_binary(progs, variant, tag)
            recs, crashes = pgrun.run_binary(binary, enumerate_k=enumerate_k)
            viols, st = pgrun.evaluate(progs, recs, crashes)
            res.evaluations += st["runs"]
            res.distinct += st["distinct_classes"]
            res.distinct_nontrivial += st["distinct_classes"]
            res.nontrivial += st["runs"]
            res.checks += st["runs"] * 8
            res.engines.append({"family": "pipegen/" + tag, "variant": variant, "mode": "single-thread deterministic", "sanitizer": "asan" if "asan" in variant else "none",
                                "cases": st["runs"], "programs": st["programs"], "runs_per_mode": st["per_mode"], "eager_twins_compared": st["twins_compared"],
                                "exhaustive_length1_stride": stride if tag == "l1" else None, "max_chain_length": 1 if tag == "l1" else (LONG_MAX_LEN if tag == "long" else 4), "wall_s": round(time.time() - t0, 2), "complete": True})
            for smp in st["samples"][:6]:
                if len(res.samples) < 24:
                    res.samples.append({"engine": "pipegen/" + variant, "case": smp})
            bykey = {}
            for v in viols:
                props = v["props"].split(",")
                f = bykey.get(v["key"])
                if f is None:
                    f = driver.Finding(prop, v["key"], v["case"], v["detail"], "pipegen", variant, 0,
                                       {"engine": "pipegen", "variant": variant, "tag": tag, "seed": seed + 7919 if tag == "long" else seed, "stride": stride,
                                        "nrandom": max(300, nrandom // 3) if tag == "long" else nrandom, "max_len": LONG_MAX_LEN if tag == "long" else 4, "program": v["prog"]})
                    f.props = props
                    bykey[v["key"]] = f
                f.count += 1
            for f in bykey.values():
                (res.findings if prop in f.props else res.other).append(f)
    except build.BuildError as e:
        res.harness_error = str(e)
    res.wall += time.time() - t0


PIPEGEN_RULE = ("pipegen: every program = source x 1-4 steps (thorough tier: an extra set with 1-8 steps) (attach mode x callback signature x return kind incl. inner Future/"
                "SharedFuture/Task heads) x start/tail; each program is run once without rejection and then once per rejection "
                "point k (from the k-th Submit on, and only the k-th) — the enumeration over k is complete per program; each run "
                "is compared with the sequential reference interpreter (callback order and arguments, executor tag, final Result, "
                "Submit count, tracked objects, new/delete balance, allocation budget). distinct = distinct (program class, "
                "rejection mode, predicted callback order, predicted final Result) tuples. ")


class Step:
    def __init__(self, family, variant, quick, thorough, cells=None, propfilter=True, hang=None, extra=None, budget=None):
        self.family, self.variant, self.quick, self.thorough = family, variant, quick, thorough
        self.cells, self.propfilter, self.hang, self.extra, self.budget = cells, propfilter, hang, extra, budget


def run_steps(prop, tier, seed, steps, nontrivial_rule, level="exploration", assumptions=None, min_distinct=50, extra_cov=None):
    t0 = time.time()
    res = driver.RunResult()
    for s in steps:
        n = s.quick if tier == "quick" else s.thorough
        if n <= 0:
            continue
        driver.run_family(res, prop, s.family, s.variant, n, seed, tier, cells=s.cells, extra_args=s.extra,
                          propfilter=s.propfilter, hang=s.hang, budget=s.budget)
        if res.harness_error:
            break
    return driver.finish(prop, tier, seed, level, res, FIBER_RULE % nontrivial_rule, assumptions or ASSUME_FIBER,
                         min_distinct=min_distinct, extra_cov=extra_cov, t_start=t0)


def c01(tier, seed):
    steps = [
        Step("fam_core", "fib-asan", 120000, 4000000),
        Step("fam_core", "thr-tsan", 3000, 60000),
        Step("fam_core", "thr-asan", 0, 60000),
    ]
    return run_steps("C01", tier, seed, steps,
                     "the producer's fulfil call and the consumer's consume call overlapped in logical time "
                     "(neither returned before the other began)")


def c07(tier, seed):
    steps = [
        Step("fam_exec", "fib-asan", 120000, 4000000, cells="strand/"),
        Step("fam_exec", "thr-tsan", 3000, 80000, cells="strand/"),
        Step("fam_exec", "thr-asan", 0, 60000, cells="strand/"),
    ]
    return run_steps("C07", tier, seed, steps,
                     "at least two submitting threads and at least two strand jobs actually executed (so batches, "
                     "re-submission and the idle transition can interleave with submissions)")


def c08(tier, seed):
    steps = [
        Step("fam_exec", "fib-asan", 120000, 4000000, cells="pool/"),
        Step("fam_exec", "thr-tsan", 3000, 80000, cells="pool/"),
        Step("fam_exec", "thr-asan", 0, 60000, cells="pool/"),
    ]
    return run_steps("C08", tier, seed, steps,
                     "at least two jobs were submitted while workers and the stopping thread ran concurrently")


def c09(tier, seed):
    steps = [
        Step("fam_when", "fib-asan", 150000, 5000000, cells="all/,join/,empty"),
        Step("fam_when", "thr-tsan", 4000, 100000, cells="all/,join/"),
        Step("fam_when", "thr-asan", 0, 60000, cells="all/,join/"),
    ]
    return run_steps("C09", tier, seed, steps,
                     "at least two inputs, or one input whose Set call overlapped the combinator call in logical time")


def c10(tier, seed):
    steps = [
        Step("fam_when", "fib-asan", 150000, 5000000, cells="any/,empty"),
        Step("fam_when", "thr-tsan", 4000, 100000, cells="any/"),
        Step("fam_when", "thr-asan", 0, 60000, cells="any/"),
    ]
    return run_steps("C10", tier, seed, steps,
                     "at least two inputs, or one input whose Set call overlapped the combinator call in logical time")


def c06(tier, seed):
    steps = [
        Step("fam_shared", "fib-asan", 100000, 3000000),
        Step("fam_shared", "thr-tsan", 6000, 120000),
        Step("fam_shared", "thr-asan", 0, 80000),
        Step("fam_when", "fib-asan", 20000, 400000, cells="shared,mixed"),
        Step("fam_wait", "fib-asan", 20000, 400000, cells="shared,mixed"),
        Step("fam_coro", "fib-asan", 20000, 400000, cells="/live"),
        Step("fam_core", "fib-asan", 8000, 200000, cells="shared-set-throws"),
    ]
    return run_steps("C06", tier, seed, steps,
                     "at least two observer operations fired on the same SharedFuture (observers register before, "
                     "during and after the fulfilling call)")


def c11(tier, seed):
    steps = [
        Step("fam_wait", "fib-asan", 150000, 4000000),
        Step("fam_core", "fib-asan", 30000, 600000, cells="wait-"),
        Step("fam_wait", "thr-asan", 3000, 60000),
        Step("fam_wait", "thr-tsan", 0, 60000),
    ]
    return run_steps("C11", tier, seed, steps,
                     "a producer's Set call overlapped the wait call in logical time, or the wait returned with only "
                     "some of the futures ready")


def c16(tier, seed):
    steps = [
        Step("fam_wg", "fib-asan", 120000, 3000000),
        Step("fam_wg", "thr-tsan", 3000, 80000),
        Step("fam_wg", "thr-asan", 0, 60000),
    ]
    return run_steps("C16", tier, seed, steps,
                     "at least one waiter registered before the count reached zero while Done calls / completions were "
                     "still outstanding")


def c18(tier, seed):
    steps = [
        Step("fam_stdlocks", "fib-asan", 200000, 4000000),
    ]
    return run_steps("C18", tier, seed, steps,
                     "at least two fibers operate on the same lock / condition variable (every case); distinct = distinct "
                     "interleaving signatures")


def c19(tier, seed):
    steps = [
        Step("fam_atomdiff", "fib-asan", 150000, 3000000),
        Step("fam_atomdiff", "thr-asan", 100000, 1000000),
    ]
    rule = ("cases = (cell, index); a seq/* case applies 30 random operations (operands drawn from boundaries and random "
            "values, random memory orders) to yaclib_std::atomic<T> and std::atomic<T> in lock-step and compares return "
            "value, expected (CAS) and stored value after every operation; exhaustive/<T> case idx covers start value "
            "idx%256 x all 256 operands x every single integral operation + both CAS forms (the 8-bit single-operation "
            "space is complete once the cell ran >=256 consecutive indices, which both tiers do); spurious/* checks the "
            "injected-failure contract at frequencies 1, 0 and 2. distinct = distinct (cell, generated sequence); every "
            "case is non-trivial.")
    t0 = time.time()
    res = driver.RunResult()
    for s in steps:
        n = s.quick if tier == "quick" else s.thorough
        driver.run_family(res, "C19", s.family, s.variant, n, seed, tier)
        if res.harness_error:
            break
    ex = {}
    for c in res.cells:
        if c["cell"].startswith("exhaustive/"):
            ex[c["engine"] + ":" + c["cell"]] = {"indices_run": c["cases"], "complete_8bit_single_op_space": c["cases"] >= 256}
    return driver.finish("C19", tier, seed, "exploration", res, rule,
                         ["std::atomic<T> of libstdc++ is the reference", "one thread per atomic object (the property is about computed values)",
                          "UBSan is part of the oracle: a trap inside the replacement is a divergence"],
                         min_distinct=1000, extra_cov={"exhaustive_subspaces": ex}, t_start=t0)


def c13(tier, seed):
    steps = [
        Step("fam_coro", "fib-asan", 120000, 3000000),
        Step("fam_coro", "fib-asan-nost", 60000, 1500000),
        Step("fam_wg", "fib-asan", 20000, 300000, cells="waitgroup/mixed"),
        Step("fam_cmutex", "fib-asan", 20000, 300000, cells="mutex/"),
        Step("fam_coro", "thr-tsan", 3000, 80000),
        Step("fam_coro", "thr-asan", 0, 60000),
    ]
    return run_steps("C13", tier, seed, steps,
                     "every case (each coroutine performs 1-3 awaits over sources that are ready, racing or late); "
                     "distinct = distinct interleaving signatures")


def c14(tier, seed):
    steps = [
        Step("fam_cmutex", "fib-asan", 100000, 3000000, cells="mutex/"),
        Step("fam_cmutex", "fib-asan-nost", 50000, 1500000, cells="mutex/"),
        Step("fam_cmutex", "thr-tsan", 3000, 80000, cells="mutex/"),
        Step("fam_cmutex", "thr-asan", 0, 60000, cells="mutex/"),
    ]
    return run_steps("C14", tier, seed, steps,
                     "every case (2-5 coroutines contend for one Mutex on 1-3 workers with a yield inside each section)")


def c15(tier, seed):
    steps = [
        Step("fam_cmutex", "fib-asan", 100000, 3000000, cells="shared-mutex/"),
        Step("fam_cmutex", "fib-asan-nost", 50000, 1500000, cells="shared-mutex/"),
        Step("fam_cmutex", "thr-tsan", 3000, 80000, cells="shared-mutex/"),
        Step("fam_cmutex", "thr-asan", 0, 60000, cells="shared-mutex/"),
    ]
    return run_steps("C15", tier, seed, steps,
                     "every case (2-6 reader/writer coroutines contend for one SharedMutex on 1-3 workers)")


def c17(tier, seed):
    steps = [
        Step("fam_repro", "fib-asan", 4000, 150000),
        Step("fam_repro", "fib-plain", 0, 150000),
    ]
    rule = ("cases = (comparison kind, program, index); the configuration (seed, yield frequency 1-8, pick width 1-16, tick "
            "length, CAS-fail frequency, initial injector state, program variant) is drawn from splitmix(VERIF_SEED, cell, "
            "index). Each case records the complete sequence of (normalised fiber id, virtual time) resumes through the "
            "YACLIB_VERIF hook plus event log, random-draw count, injected-yield count and end time, and compares two "
            "executions: in-process re-run / new process via exec with perturbed heap and real sleeps / phase 2 restored "
            "from a checkpoint. distinct = distinct full-trace hashes; non-trivial = trace longer than 20 resumes with at "
            "least one injected yield.")
    t0 = time.time()
    res = driver.RunResult()
    for s in steps:
        n = s.quick if tier == "quick" else s.thorough
        if n <= 0:
            continue
        driver.run_family(res, "C17", s.family, s.variant, n, seed, tier)
        if res.harness_error:
            break
    return driver.finish("C17", tier, seed, "exploration", res, rule,
                         ["five client programs (pool+strand+coroutine mutex, timed waits, weak-CAS loops, std locks/condvar, combinators)",
                          "the trace hook reports every fiber resume; anything that does not change the resume sequence, virtual time, draws or client events is invisible"],
                         min_distinct=200, t_start=t0)


def c02(tier, seed):
    t0 = time.time()
    res = driver.RunResult()
    q = tier == "quick"
    pipegen_step(res, "C02", tier, seed, "plain20-O0", 12 if q else 1, 250 if q else 4000, enumerate_k=False)
    if not res.harness_error and not q:
        pipegen_step(res, "C02", tier, seed, "plain17", 4, 1500, enumerate_k=False)
    if not res.harness_error:
        # flattening of a returned Future / SharedFuture that another thread fulfils meanwhile (fiber schedules)
        driver.run_family(res, "C02", "fam_core", "fib-asan", 30000 if q else 1000000, seed, tier, cells="flatten/")
    return driver.finish("C02", tier, seed, "exploration", res, PIPEGEN_RULE + "C02 uses the runs without rejection. "
                         "Fiber rows (fam_core flatten/*): a step returns a pending Future / SharedFuture while another thread fulfils it; "
                         "the continuation behind the step must run exactly once with the inner result on every explored interleaving.",
                         ["the reference interpreter in pipegen/gen.py encodes the documented routing/recovery/unwrapping rules",
                          "the generated programs run single-threaded and deterministically; interleavings are explored for the flattening hand-over only (and by C01/C03/C04/C06 for everything else)"],
                         min_distinct=100, t_start=t0)


def c12(tier, seed):
    t0 = time.time()
    res = driver.RunResult()
    q = tier == "quick"
    pipegen_step(res, "C12", tier, seed, "plain20-O0", 12 if q else 1, 250 if q else 4000, enumerate_k=True)
    if not res.harness_error:
        driver.run_family(res, "C12", "fam_coro", "fib-asan", 20000 if q else 400000, seed, tier, cells="task-coroutine,await-lazy-task,lazy-task-overwritten")
    return driver.finish("C12", tier, seed, "exploration", res,
                         PIPEGEN_RULE + "C12 looks at the lazy programs: a 'started' flag is raised immediately before the starting call "
                         "(ToFuture, ToFuture(e), Get, Detach, Detach(e), drop; returned-as-inner-Task and co_await/Await starts come from "
                         "the inner-task return kinds and from the fiber coroutine cells) and every callback logs it; lazy programs "
                         "are also compared with their eager twins.",
                         ["reference interpreter as for C02", "abandoning = destroying the unstarted Task: the head sees StopError, the rest follows the C02 rules"],
                         min_distinct=100, t_start=t0)


def c05(tier, seed):
    t0 = time.time()
    res = driver.RunResult()
    q = tier == "quick"
    pipegen_step(res, "C05", tier, seed, "plain20-O0", 12 if q else 1, 250 if q else 4000, enumerate_k=True)
    for s in ([Step("fam_exec", "fib-asan", 60000, 1500000), Step("fam_core", "fib-asan", 20000, 400000, cells="-exec"),
               Step("fam_coro", "fib-asan", 20000, 400000, cells="stopped-target,future-coroutine/live,rebind-same-executor"),
               Step("fam_exec", "thr-tsan", 2000, 60000)]):
        if res.harness_error:
            break
        n = s.quick if q else s.thorough
        driver.run_family(res, "C05", s.family, s.variant, n, seed, tier, cells=s.cells)
    return driver.finish("C05", tier, seed, "fault_enumeration", res,
                         PIPEGEN_RULE + "Fiber engines: instrumented jobs on Inline/stopped Inline/Manual/Strand/FairThreadPool with a "
                         "stopping thread (Call xor Drop, Drop only after the stop began), executor tag at continuation/coroutine "
                         "resumption; there distinct = distinct interleaving signatures.",
                         ["rejection points are enumerated completely per generated program (k-th Submit), schedules of Stop vs Submit are sampled"],
                         min_distinct=100, t_start=t0)


def c20(tier, seed):
    t0 = time.time()
    res = driver.RunResult()
    q = tier == "quick"
    pipegen_step(res, "C20", tier, seed, "plain20-O0", 12 if q else 1, 250 if q else 4000, enumerate_k=False)
    if not res.harness_error and not q:
        pipegen_step(res, "C20", tier, seed, "plain20", 3, 1500, enumerate_k=False)
        pipegen_step(res, "C20", tier, seed, "plain17", 3, 1500, enumerate_k=False)
    for variant, n in (("plain20", 6000 if q else 200000), ("plain20-O0", 0 if q else 100000), ("plain17", 3000 if q else 100000)):
        if res.harness_error or n == 0:
            continue
        driver.run_family(res, "C20", "fam_alloc", variant, n, seed, tier)
    return driver.finish("C20", tier, seed, "exploration", res,
                         PIPEGEN_RULE + "C20: allocations (global operator new calls between two program points of a single-threaded "
                         "run) of every generated pipeline must not exceed its number of steps, inner futures/tasks created by callbacks "
                         "included. fam_alloc: each combinator x policy x form is measured for n = 1,2,3,4,8,16,33,64 inputs (static "
                         "forms 2,3,4,6) and must give the same count for every n >= 2 (and <= 8); Wait/WaitFor/WaitUntil (variadic "
                         "n<=4, iterator n<=64; ready, completed by another thread during the wait, timing out), Future::Get, Strand "
                         "submission of existing jobs and co_await of futures / On(e) must give 0.",
                         ["instrumentation is allocation-free (intrusive executors, fixed logs)", "-O0 counts are an upper bound (no allocation elision)",
                          "std::make_exception_ptr / throw allocate through malloc, not operator new, and are not counted"],
                         min_distinct=100, t_start=t0)


ALL_FIBER_FAMS = ["fam_core", "fam_exec", "fam_when", "fam_wait", "fam_shared", "fam_wg", "fam_cmutex", "fam_coro"]
HB_FAMS = ALL_FIBER_FAMS  # families whose payload words are annotated for the happens-before monitor


def c03(tier, seed):
    t0 = time.time()
    res = driver.RunResult()
    q = tier == "quick"
    per = 14000 if q else 600000
    for fam in ALL_FIBER_FAMS:
        if res.harness_error:
            break
        driver.run_family(res, "C03", fam, "fib-asan", per, seed, tier, propfilter=False)
    if not res.harness_error:
        pipegen_step(res, "C03", tier, seed, "asan20", 60 if q else 4, 100 if q else 1500, enumerate_k=True)
    for fam in (["fam_core", "fam_shared", "fam_when"] if q else ALL_FIBER_FAMS):
        if res.harness_error:
            break
        driver.run_family(res, "C03", fam, "thr-asan", 1500 if q else 50000, seed, tier, propfilter=False)
    return driver.finish("C03", tier, seed, "fault_enumeration", res,
                         (FIBER_RULE % "the racing parties overlapped (family-specific rule, see the checks of C01, C06-C16)") +
                         " Every fiber case ends with three lifecycle oracles: tracked payload/functor objects alive == 0 with intact "
                         "canaries, operator new/delete balance == 0 (an imbalance must repeat on an identical re-run), and ASan/UBSan; "
                         "LeakSanitizer runs at the end of every batch. " + PIPEGEN_RULE +
                         "For C03 the generated programs run under ASan with tracked captures in every functor.",
                         ASSUME_FIBER + ["rejection points (k-th Submit) are enumerated completely per generated program; drop points of handles and "
                                         "Stop/HardStop moments in the fiber families are sampled"],
                         min_distinct=1000, t_start=t0)


def c04(tier, seed):
    t0 = time.time()
    res = driver.RunResult()
    q = tier == "quick"
    per = 2500 if q else 60000
    for fam in ALL_FIBER_FAMS:
        if res.harness_error:
            break
        driver.run_family(res, "C04", fam, "thr-tsan", per, seed, tier, propfilter=False)
    # happens-before monitor on fiber schedules (vector clocks over the YACLIB_VERIF synchronization trace)
    for fam in HB_FAMS:
        if res.harness_error:
            break
        driver.run_family(res, "C04", fam, "fib-asan", 25000 if q else 600000, seed, tier, propfilter=False)
    if not res.harness_error and res.hb_checks == 0:
        res.harness_error = "the happens-before monitor checked no plain access (sync hook not compiled in?)"
    if not q:
        for fam in ALL_FIBER_FAMS:
            if res.harness_error:
                break
            driver.run_family(res, "C04", fam, "off-tsan", per, seed + 1, tier, propfilter=False)
    rule = ("cases = (cell, index) as in the fiber engines, here executed by real threads: THREAD fault backend (random 1-2000 ns "
            "sleeps before/after every atomic, mutex and condition-variable operation) under gcc ThreadSanitizer; thorough also "
            "without fault injection. In every scenario the producer thread writes a plain payload immediately before the "
            "library operation and the observer reads it immediately on observing completion; monitors use relaxed atomics only, "
            "so the library's own edge is the only happens-before path. Deciding oracle: ThreadSanitizer report blocks "
            "(__tsan_on_report), attributed to the case and keyed by the first library frame; distinct = distinct client-visible "
            "observation hashes per cell; non-trivial = the racing calls overlapped in logical time. "
            "Second engine (fib-asan rows): the same scenarios on seeded fiber schedules with the happens-before monitor "
            "(harness/vf_hb.hpp): the fiber backend reports every atomic operation with its std::memory_order, every fence, mutex "
            "acquire/release and thread start/exit/join through the YACLIB_VERIF sync hook; the monitor keeps vector clocks per "
            "fiber and release clocks per object exactly as the C++ memory model defines synchronizes-with (release sequences, "
            "fences) and checks each annotated plain access (the payload words) for two conflicting accesses not ordered by "
            "happens-before (oracle hb-race@<word>). This decides the visibility clauses on every explored schedule, including "
            "rare paths, and covers the fence-based AtomicCounter::SubEqual branch that the TSan build does not compile.")
    return driver.finish("C04", tier, seed, "exploration", res, rule,
                         ["ThreadSanitizer observes executions on x86-TSO: non-SC outcomes of the atomics themselves are out of reach",
                          "the happens-before monitor checks the annotated payload words only (not every library-internal plain field) and, wherever the standard leaves a choice, assumes more happens-before rather than less (C++11 release-sequence rule, seq_cst = acq_rel, consume = acquire)",
                          "under -fsanitize=thread the library compiles the acq_rel branch of AtomicCounter::SubEqual (YACLIB_TSAN); the fence-based production branch is observed by the happens-before monitor only",
                          "libstdc++'s exception_ptr reference count is not instrumented: reports whose stack contains exception_ptr::_M_release/_M_addref are suppressed",
                          "AtomicEvent (src/util/atomic_event.cpp) is dead code in every configuration (YACLIB_FUTEX is hard-set to 0)"],
                         min_distinct=500, t_start=t0)


PLANS = {
    "C01": c01,
    "C03": c03,
    "C04": c04,
    "C20": c20,
    "C02": c02,
    "C05": c05,
    "C12": c12,
    "C17": c17,
    "C13": c13,
    "C14": c14,
    "C15": c15,
    "C19": c19,
    "C06": c06,
    "C11": c11,
    "C16": c16,
    "C18": c18,
    "C07": c07,
    "C08": c08,
    "C09": c09,
    "C10": c10,
}
