import sys, time
sys.path.insert(0,'/verif')
from vf import build
name, variant = sys.argv[1], sys.argv[2]
t=time.time()
try:
    print(build.harness(name, variant), "%.1fs" % (time.time()-t))
except build.BuildError as e:
    print(e)
    import re
    log = str(e).split('see ')[-1]
    lines = open(log).read().splitlines()
    errs = [l for l in lines if 'error' in l or 'required from here' in l]
    print("\n".join(l[:400] for l in errs[:25]))
    sys.exit(1)
