"""Run the registered quick checks against filed seeded changes and record the outcome in their meta.json:
   python3 -m vf.seed_checks [<id> ...]      (default: every seeded/<id> whose meta.json has no check results yet)"""
import glob
import json
import os
import re
import subprocess
import sys

ROOT = os.path.dirname(os.path.dirname(os.path.abspath(__file__)))
EXTRA = {"C11": [], "C06": [], "C16": [], "C13": []}


def main(argv):
    ids = argv[1:]
    if not ids:
        for m in sorted(glob.glob(os.path.join(ROOT, "seeded", "*", "meta.json"))):
            d = json.load(open(m))
            if not d.get("checks") and d.get("patch_applies_to_head"):
                ids.append(d["id"])
    for sid in ids:
        mpath = os.path.join(ROOT, "seeded", sid, "meta.json")
        d = json.load(open(mpath))
        props = [d["property"]] + EXTRA.get(d["property"], [])
        d.setdefault("checks", {})
        for c in props:
            p = subprocess.run([sys.executable, "-m", "vf.seedtest", os.path.join(ROOT, "seeded", sid, "patch.diff"), c], cwd=ROOT,
                               stdout=subprocess.PIPE, stderr=subprocess.STDOUT)
            out = p.stdout.decode(errors="replace")
            keys = [l.strip() for l in out.splitlines() if l.strip().startswith("key=")]
            m = re.search(r"exit=(\d+) violations=(\d+)\s+\((\d+) s\)", out)
            d["checks"][c] = {"quick_exit": int(m.group(1)) if m else None, "violations": int(m.group(2)) if m else None,
                              "wall_s": int(m.group(3)) if m else None,
                              "keys": sorted({re.sub(r" occurrences.*", "", k) for k in keys})[:8]}
            print(sid, c, d["checks"][c]["quick_exit"], d["checks"][c]["keys"][:2], flush=True)
        json.dump(d, open(mpath, "w"), indent=1)


if __name__ == "__main__":
    main(sys.argv)
