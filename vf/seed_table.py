"""Regenerate the seeded-change table in DESIGN.md from seeded/*/meta.json (python3 -m vf.seed_table)."""
import glob
import json
import os

ROOT = os.path.dirname(os.path.dirname(os.path.abspath(__file__)))


def main():
    rows = []
    for m in sorted(glob.glob(os.path.join(ROOT, "seeded", "*", "meta.json"))):
        d = json.load(open(m))
        bl = d.get("baseline_suite_with_change", {})
        demo = d.get("demo", {})
        chk = []
        for c, v in sorted(d.get("checks", {}).items()):
            if v.get("quick_exit") == 1:
                keys = "; ".join(k.replace("key=", "") for k in v.get("keys", [])[:2])
                chk.append("%s **caught** (`%s`)" % (c, keys[:110]))
            elif v.get("quick_exit") == 0:
                chk.append("%s missed" % c)
            else:
                chk.append("%s n/a" % c)
        first = ""
        patch = os.path.join(os.path.dirname(m), "patch.diff")
        if os.path.exists(patch):
            files = [l[6:].strip() for l in open(patch) if l.startswith("+++ b/")]
            first = ", ".join(os.path.basename(f) for f in files[:2])
        rows.append("   | %s | %s | %s | %s | %s | %s | %s |" % (d["id"], d["property"], first, "yes" if d.get("patch_applies_to_head") else "no",
                    "passes" if bl.get("passes") else "FAILS" if bl else "-", "yes" if demo.get("fails_with_and_passes_without") else "no",
                    "<br>".join(chk) if chk else "not run yet"))
    head = ("   | seeded change | breaks | file(s) | applies | baseline suite with it | demo fails with / passes without | quick checks |\n"
            "   |---|---|---|---|---|---|---|\n")
    table = head + "\n".join(rows)
    p = os.path.join(ROOT, "DESIGN.md")
    s = open(p).read()
    a = s.index("<!-- SEEDED-BEGIN -->") if "<!-- SEEDED-BEGIN -->" in s else None
    if a is None:
        s = s.replace("SEEDED_TABLE", "<!-- SEEDED-BEGIN -->\n" + table + "\n<!-- SEEDED-END -->")
    else:
        b = s.index("<!-- SEEDED-END -->")
        s = s[:a] + "<!-- SEEDED-BEGIN -->\n" + table + "\n" + s[b:]
    open(p, "w").write(s)
    print(len(rows), "rows")


if __name__ == "__main__":
    main()
