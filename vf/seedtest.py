"""Run registered checks against a seeded change without touching /repo:
   python3 -m vf.seedtest <patch.diff> <Cxx> [<Cxx>...] [--tier quick]
A scratch worktree of /repo HEAD gets the patch; the checks run with VERIF_REPO pointing at it and with evidence and
replay output redirected to a temp dir; the worktree is removed afterwards."""
import os
import shutil
import subprocess
import sys
import tempfile
import time

ROOT = os.path.dirname(os.path.dirname(os.path.abspath(__file__)))


def main(argv):
    patch = os.path.abspath(argv[1])
    tier = "quick"
    props = []
    i = 2
    while i < len(argv):
        if argv[i] == "--tier":
            tier = argv[i + 1]
            i += 2
        else:
            props.append(argv[i])
            i += 1
    wt = tempfile.mkdtemp(prefix="st_", dir="/tmp")
    os.rmdir(wt)
    out = tempfile.mkdtemp(prefix="stout_", dir="/tmp")
    subprocess.check_call(["git", "-C", "/repo", "worktree", "add", "-q", "--detach", wt, "HEAD"])
    rc_all = {}
    try:
        r = subprocess.run(["git", "-C", wt, "apply", patch])
        if r.returncode != 0:
            print("PATCH DOES NOT APPLY:", patch)
            return 3
        for p in props:
            env = dict(os.environ, VERIF_REPO=wt, VERIF_EVIDENCE_DIR=os.path.join(out, "ev"), VERIF_REPLAY_DIR=os.path.join(out, "rp"))
            t0 = time.time()
            r = subprocess.run([os.path.join(ROOT, "check"), p, "--tier", tier], env=env, stdout=subprocess.PIPE, stderr=subprocess.STDOUT)
            txt = r.stdout.decode(errors="replace")
            viol = [l for l in txt.splitlines() if l.startswith("VIOLATION")]
            keys = [l.strip() for l in txt.splitlines() if l.strip().startswith("key=")]
            print("== %s on %s: exit=%d violations=%d  (%.0f s)" % (p, os.path.basename(os.path.dirname(patch)) or patch, r.returncode, len(viol), time.time() - t0))
            for k in keys[:6]:
                print("     ", k[:260])
            if r.returncode not in (0, 1):
                print(txt[-1500:])
            rc_all[p] = r.returncode
    finally:
        subprocess.run(["git", "-C", "/repo", "worktree", "remove", "--force", wt])
        shutil.rmtree(out, ignore_errors=True)
    return 0


if __name__ == "__main__":
    sys.exit(main(sys.argv))
