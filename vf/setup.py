"""Pre-build every library variant and harness binary the registered checks use."""
import concurrent.futures as cf
import sys
import time

from . import build

FAMS = ["fam_core", "fam_exec", "fam_when", "fam_wait", "fam_shared", "fam_wg", "fam_cmutex", "fam_coro"]
TARGETS = [(f, v) for f in FAMS for v in ("fib-asan", "thr-tsan", "thr-asan")] + [("fam_stdlocks", "fib-asan"), ("fam_atomdiff", "fib-asan"), ("fam_atomdiff", "thr-asan"),
                                                                                   ("fam_repro", "fib-asan"), ("fam_alloc", "plain20"), ("fam_alloc", "plain17"), ("fam_cmutex", "fib-asan-nost"), ("fam_coro", "fib-asan-nost")]


def main():
    t0 = time.time()
    variants = sorted({v for _, v in TARGETS})
    ok = True
    # libraries first (each cmake build already uses all cores), then harness TUs in parallel
    for v in variants:
        try:
            build.lib(v)
        except build.BuildError as e:
            print("setup:", e)
            ok = False
    with cf.ThreadPoolExecutor(max_workers=8) as ex:
        futs = {ex.submit(build.harness, n, v): (n, v) for n, v in TARGETS}
        for f in cf.as_completed(futs):
            try:
                f.result()
            except build.BuildError as e:
                print("setup:", e)
                ok = False
    # generated pipeline programs: the seed-independent length-1 sets used by the quick tier
    try:
        import os
        sys.path.insert(0, build.ROOT)
        from pipegen import run as pgrun
        pgrun.build_binary(pgrun.l1_programs(True, 12), "plain20-O0", "l1")
        pgrun.build_binary(pgrun.l1_programs(True, 60), "asan20", "l1")
    except build.BuildError as e:
        print("setup:", e)
        ok = False
    print("setup %s in %.1f s" % ("ok" if ok else "FAILED", time.time() - t0))
    return 0 if ok else 1


if __name__ == "__main__":
    sys.exit(main())
